// Package simsync is a drop-in replacement for the parts of package sync the module under
// test uses. Blocking is done on per-wait channels (durably blocking inside a synctest bubble,
// where a real sync.Mutex is not), and every operation is a scheduling point of simhook.
// Internal state is guarded by a real mutex held for a few instructions only.
//
// Wake-up policy: a release wakes every waiter and each re-contends after passing its hook, so
// the acquisition order is a decision of the scheduler, never of arrival order.
package simsync

import (
	rsync "sync"

	"github.com/arloliu/go-secs/v2/verifsim/simhook"
)

// Locker mirrors sync.Locker.
type Locker = rsync.Locker

type waitq struct {
	ws []chan struct{}
}

func (q *waitq) add() chan struct{} {
	ch := make(chan struct{})
	q.ws = append(q.ws, ch)

	return ch
}

func (q *waitq) wakeAll() {
	for _, ch := range q.ws {
		close(ch)
	}
	q.ws = nil
}

// Mutex replaces sync.Mutex.
type Mutex struct {
	g    rsync.Mutex
	held bool
	q    waitq
}

// Lock acquires m.
func (m *Mutex) Lock() {
	for {
		simhook.Yield("mu.Lock")
		m.g.Lock()
		if !m.held {
			m.held = true
			m.g.Unlock()

			return
		}
		ch := m.q.add()
		m.g.Unlock()
		<-ch
	}
}

// TryLock tries to acquire m without blocking.
func (m *Mutex) TryLock() bool {
	simhook.Yield("mu.TryLock")
	m.g.Lock()
	defer m.g.Unlock()
	if m.held {
		return false
	}
	m.held = true

	return true
}

// Unlock releases m.
func (m *Mutex) Unlock() {
	m.g.Lock()
	if !m.held {
		m.g.Unlock()
		panic("simsync: unlock of unlocked mutex")
	}
	m.held = false
	m.q.wakeAll()
	m.g.Unlock()
	simhook.Yield("mu.Unlock")
}

// RWMutex replaces sync.RWMutex. Writers are preferred once waiting (as in package sync) so that
// a stream of readers cannot starve a writer.
type RWMutex struct {
	g        rsync.Mutex
	readers  int
	writer   bool
	wwaiting int
	q        waitq
}

// RLock acquires a read lock.
func (m *RWMutex) RLock() {
	for {
		simhook.Yield("rw.RLock")
		m.g.Lock()
		if !m.writer && m.wwaiting == 0 {
			m.readers++
			m.g.Unlock()

			return
		}
		ch := m.q.add()
		m.g.Unlock()
		<-ch
	}
}

// TryRLock tries to acquire a read lock.
func (m *RWMutex) TryRLock() bool {
	simhook.Yield("rw.TryRLock")
	m.g.Lock()
	defer m.g.Unlock()
	if !m.writer && m.wwaiting == 0 {
		m.readers++

		return true
	}

	return false
}

// RUnlock releases a read lock.
func (m *RWMutex) RUnlock() {
	m.g.Lock()
	if m.readers <= 0 {
		m.g.Unlock()
		panic("simsync: RUnlock of unlocked RWMutex")
	}
	m.readers--
	if m.readers == 0 {
		m.q.wakeAll()
	}
	m.g.Unlock()
	simhook.Yield("rw.RUnlock")
}

// Lock acquires the write lock.
func (m *RWMutex) Lock() {
	first := true
	for {
		simhook.Yield("rw.Lock")
		m.g.Lock()
		if !first {
			m.wwaiting--
		}
		if !m.writer && m.readers == 0 {
			m.writer = true
			m.g.Unlock()

			return
		}
		first = false
		m.wwaiting++
		ch := m.q.add()
		m.g.Unlock()
		<-ch
	}
}

// TryLock tries to acquire the write lock.
func (m *RWMutex) TryLock() bool {
	simhook.Yield("rw.TryLock")
	m.g.Lock()
	defer m.g.Unlock()
	if !m.writer && m.readers == 0 {
		m.writer = true

		return true
	}

	return false
}

// Unlock releases the write lock.
func (m *RWMutex) Unlock() {
	m.g.Lock()
	if !m.writer {
		m.g.Unlock()
		panic("simsync: Unlock of unlocked RWMutex")
	}
	m.writer = false
	m.q.wakeAll()
	m.g.Unlock()
	simhook.Yield("rw.Unlock")
}

type rlocker RWMutex

func (r *rlocker) Lock()   { (*RWMutex)(r).RLock() }
func (r *rlocker) Unlock() { (*RWMutex)(r).RUnlock() }

// RLocker returns a Locker for the read side.
func (m *RWMutex) RLocker() Locker { return (*rlocker)(m) }

// WaitGroup replaces sync.WaitGroup.
type WaitGroup struct {
	g rsync.Mutex
	n int
	q waitq
}

// Add adds delta to the counter.
func (w *WaitGroup) Add(delta int) {
	simhook.Yield("wg.Add")
	w.g.Lock()
	w.n += delta
	if w.n < 0 {
		w.g.Unlock()
		panic("simsync: negative WaitGroup counter")
	}
	if w.n == 0 {
		w.q.wakeAll()
	}
	w.g.Unlock()
}

// Done decrements the counter.
func (w *WaitGroup) Done() { w.Add(-1) }

// Wait blocks until the counter is zero.
func (w *WaitGroup) Wait() {
	for {
		simhook.Yield("wg.Wait")
		w.g.Lock()
		if w.n == 0 {
			w.g.Unlock()

			return
		}
		ch := w.q.add()
		w.g.Unlock()
		<-ch
	}
}

// Go runs f in a new goroutine counted by w.
func (w *WaitGroup) Go(f func()) {
	w.Add(1)
	simhook.Go("wg.Go", false, func() {
		defer w.Done()
		f()
	})
}

// Once replaces sync.Once.
type Once struct {
	g       rsync.Mutex
	done    bool
	running bool
	q       waitq
}

// Do calls f if and only if Do is being called for the first time for this Once.
func (o *Once) Do(f func()) {
	for {
		simhook.Yield("once.Do")
		o.g.Lock()
		if o.done {
			o.g.Unlock()

			return
		}
		if !o.running {
			o.running = true
			o.g.Unlock()
			defer func() {
				o.g.Lock()
				o.done = true
				o.running = false
				o.q.wakeAll()
				o.g.Unlock()
			}()
			f()

			return
		}
		ch := o.q.add()
		o.g.Unlock()
		<-ch
	}
}

// OnceFunc mirrors sync.OnceFunc.
func OnceFunc(f func()) func() {
	var o Once

	return func() { o.Do(f) }
}

// OnceValue mirrors sync.OnceValue.
func OnceValue[T any](f func() T) func() T {
	var o Once
	var v T

	return func() T {
		o.Do(func() { v = f() })

		return v
	}
}

// OnceValues mirrors sync.OnceValues.
func OnceValues[T1, T2 any](f func() (T1, T2)) func() (T1, T2) {
	var o Once
	var v1 T1
	var v2 T2

	return func() (T1, T2) {
		o.Do(func() { v1, v2 = f() })

		return v1, v2
	}
}

// Cond replaces sync.Cond.
type Cond struct {
	L Locker
	g rsync.Mutex
	q waitq
}

// NewCond returns a new Cond with Locker l.
func NewCond(l Locker) *Cond { return &Cond{L: l} }

// Wait atomically unlocks c.L and suspends the caller; it re-locks before returning.
func (c *Cond) Wait() {
	c.g.Lock()
	ch := c.q.add()
	c.g.Unlock()
	c.L.Unlock()
	<-ch
	simhook.Resume("cond.Wait")
	c.L.Lock()
}

// Signal wakes one waiter (the scheduler picks which).
func (c *Cond) Signal() {
	simhook.Yield("cond.Signal")
	c.g.Lock()
	if n := len(c.q.ws); n > 0 {
		i := simhook.Pick(n, "cond.Signal")
		ch := c.q.ws[i]
		c.q.ws = append(c.q.ws[:i:i], c.q.ws[i+1:]...)
		close(ch)
	}
	c.g.Unlock()
}

// Broadcast wakes all waiters.
func (c *Cond) Broadcast() {
	simhook.Yield("cond.Broadcast")
	c.g.Lock()
	c.q.wakeAll()
	c.g.Unlock()
}

// Pool replaces sync.Pool. Objects are pooled only WITHIN one simulated run: a pooled *time.Timer
// (internal/pool) crossing from one synctest bubble into the next is a fatal runtime error, so the
// pool forgets everything it holds when the installed scheduler changes. Within a run it behaves as
// a LIFO free list — deterministic, and the most aggressive reuse a real sync.Pool can show, so that
// code relying on "a fresh object" (an undrained channel, a stale field) is exposed.
type Pool struct {
	New func() any

	mu    rsync.Mutex
	owner *simhook.Sched
	items []any
}

// Get returns a pooled object of the current run, else New(), else nil.
func (p *Pool) Get() any {
	cur := simhook.Current()
	p.mu.Lock()
	if p.owner != cur {
		p.owner, p.items = cur, nil
	}
	if n := len(p.items); n > 0 {
		x := p.items[n-1]
		p.items = p.items[:n-1]
		p.mu.Unlock()

		return x
	}
	p.mu.Unlock()
	if p.New != nil {
		return p.New()
	}

	return nil
}

// Put returns x to the current run's free list.
func (p *Pool) Put(x any) {
	cur := simhook.Current()
	p.mu.Lock()
	if p.owner != cur {
		p.owner, p.items = cur, nil
	}
	if len(p.items) < 64 {
		p.items = append(p.items, x)
	}
	p.mu.Unlock()
}

// Map is sync.Map (its critical sections never block, so the real one is safe in a bubble).
type Map = rsync.Map
