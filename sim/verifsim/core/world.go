package core

import (
	"container/heap"
	"fmt"
	"hash/fnv"
	"sort"
	"strconv"
	"strings"
	"testing/synctest"
	"time"

	"github.com/arloliu/go-secs/v2/verifsim/simhook"
)

// Epoch is the fake clock's origin inside a synctest bubble.
var Epoch = time.Date(2000, 1, 1, 0, 0, 0, 0, time.UTC)

// Strategy parameters (drawn from the seed, swarm style).
type Strategy struct {
	Name       string
	PreemptNum int // preempt with probability PreemptNum/PreemptDen at a hook
	PreemptDen int
	RandomPick bool   // driver picks uniformly among candidates (else lowest id / earliest event)
	BiasSite   string // site class preempted with probability 1/2 ("" = none)
	PCTDepth   int    // >0: PCT-style priority scheduling with that many change points
}

// Event is a simulator event (network delivery, fault, peer action, client start).
type Event struct {
	At    time.Duration
	Seq   uint64
	Label string
	Run   func()
	idx   int
	dead  bool
}

type evHeap []*Event

func (h evHeap) Len() int { return len(h) }
func (h evHeap) Less(i, j int) bool {
	if h[i].At != h[j].At {
		return h[i].At < h[j].At
	}

	return h[i].Seq < h[j].Seq
}
func (h evHeap) Swap(i, j int) { h[i], h[j] = h[j], h[i]; h[i].idx = i; h[j].idx = j }
func (h *evHeap) Push(x any)   { e := x.(*Event); e.idx = len(*h); *h = append(*h, e) }
func (h *evHeap) Pop() any {
	old := *h
	n := len(old)
	e := old[n-1]
	*h = old[:n-1]

	return e
}

// Violation is a property violation found during a run.
type Violation struct {
	Class string
	Msg   string
	At    time.Duration
	Step  uint64
}

// World is one simulated run.
type World struct {
	T     *Tape
	S     *simhook.Sched
	Strat Strategy

	events evHeap
	seq    uint64
	Steps  uint64

	hash    uint64
	logN    uint64
	Trace   []string // last lines (ring) or all lines when KeepTrace
	Keep    bool
	ringMax int

	Viol     *Violation
	stop     bool
	Faults   map[string]int // fault kind -> times actually fired
	Probes   map[string]int // reach probes
	monitors []func()

	MaxSteps uint64
	// HoldAt arms one-shot holds: site -> duration (see policy.Preempt).
	HoldAt map[string]time.Duration
	// HoldApp, when set, restricts prefix holds to goroutines it accepts; OnHold is told about a hold.
	HoldApp func(g *simhook.G) bool
	OnHold  func(g *simhook.G, site string, d time.Duration)
	// HoldNth: one-shot holds aimed at the n-th hook of a site class that a particular goroutine passes
	// (see NthHold); Roles: goroutine id -> role, maintained by TrackRoles.
	HoldNth      []*NthHold
	Roles        map[string]string
	spinStep     uint64
	spinHooks    int
	SpinMax      uint64 // most scheduler steps seen at one simulated instant
	spinNow      time.Duration
	spinFrom     uint64
	lastReleased string
	prio         map[string]int // PCT priorities
	pctPts       map[uint64]bool
	Stalls       int
}

// NewWorld installs the scheduler; must be called inside the bubble by the root goroutine.
func NewWorld(t *Tape, st Strategy) *World {
	w := &World{T: t, Strat: st, Faults: map[string]int{}, Probes: map[string]int{}, MaxSteps: 400000, ringMax: 400, HoldAt: map[string]time.Duration{}}
	w.hash = 14695981039346656037
	w.S = simhook.Install((*policy)(w))
	w.S.Log = func(kind, id, site string) { w.Logf("%s %s %s", kind, id, site) }

	return w
}

// Now returns simulated time since the epoch.
func (w *World) Now() time.Duration { return time.Since(Epoch) }

// Logf appends to the event log (never draws from the tape, never reads a real clock).
func (w *World) Logf(format string, args ...any) {
	line := strconv.FormatUint(w.logN, 10) + " " + strconv.FormatInt(int64(time.Since(Epoch)), 10) + " " + fmt.Sprintf(format, args...)
	w.logN++
	h := fnv.New64a()
	var b [8]byte
	for i := 0; i < 8; i++ {
		b[i] = byte(w.hash >> (8 * i))
	}
	h.Write(b[:])
	h.Write([]byte(line))
	w.hash = h.Sum64()
	if w.Keep {
		w.Trace = append(w.Trace, line)
	} else {
		if len(w.Trace) >= w.ringMax {
			copy(w.Trace, w.Trace[1:])
			w.Trace = w.Trace[:len(w.Trace)-1]
		}
		w.Trace = append(w.Trace, line)
	}
}

// Hash returns the event-log fingerprint.
func (w *World) Hash() string { return fmt.Sprintf("%016x", w.hash) }

// Fail records the first violation and stops the run.
func (w *World) Fail(class, format string, args ...any) {
	msg := fmt.Sprintf(format, args...)
	w.Logf("VIOLATION %s %s", class, msg)
	if w.Viol == nil {
		w.Viol = &Violation{Class: class, Msg: msg, At: w.Now(), Step: w.Steps}
	}
	w.stop = true
}

// Fault counts a fault that actually fired.
func (w *World) Fault(kind string) { w.Faults[kind]++; w.Logf("fault %s", kind) }

// Probe counts a reach probe.
func (w *World) Probe(name string) { w.Probes[name]++ }

// AddMonitor registers an invariant evaluated by the driver after every step.
func (w *World) AddMonitor(f func()) { w.monitors = append(w.monitors, f) }

// After schedules fn at now+d on the simulator's event queue (run by the driver).
func (w *World) After(d time.Duration, label string, fn func()) *Event {
	if d < 0 {
		d = 0
	}
	w.seq++
	e := &Event{At: w.Now() + d, Seq: w.seq, Label: label, Run: fn}
	heap.Push(&w.events, e)
	w.S.Poke()

	return e
}

// Idle reports whether nothing can happen at the current instant: no goroutine is parked at a
// hook (everything is blocked on time or I/O) and no simulator event is due.
func (w *World) Idle() bool {
	if w.S.NumParked() > 0 {
		return false
	}
	now := w.Now()
	for _, e := range w.events {
		if !e.dead && e.At <= now {
			return false
		}
	}

	return true
}

// At schedules fn at absolute simulated time t.
func (w *World) At(t time.Duration, label string, fn func()) *Event {
	d := t - w.Now()

	return w.After(d, label, fn)
}

// Cancel removes a scheduled event.
func (w *World) Cancel(e *Event) {
	if e != nil {
		e.dead = true
	}
}

// Go starts an application goroutine under the scheduler.
func (w *World) Go(name string, fn func()) {
	simhook.Go(name, true, fn)
}

// Stop ends the run at the next driver step.
func (w *World) Stop() { w.stop = true }

// Stopped reports whether the run has been told to stop.
func (w *World) Stopped() bool { return w.stop }

// Run drives the simulation until done() is true, the horizon is reached, a violation is found
// or the step budget is exhausted. It returns the reason.
func (w *World) Run(horizon time.Duration, done func() bool) string {
	for {
		synctest.Wait()
		for _, m := range w.monitors {
			m()
		}
		if w.stop {
			return "stopped"
		}
		if done != nil && done() {
			return "done"
		}
		now := w.Now()
		if now >= horizon {
			return "horizon"
		}
		if w.Steps >= w.MaxSteps {
			return "steps"
		}
		// no progress in time: tens of thousands of scheduler steps at one simulated instant. Healthy code
		// runs a few hundred steps per instant and then blocks until a timer or the network wakes it; a
		// goroutine that keeps being runnable without ever waiting (a retry loop on a dead socket) pins
		// the clock. (Preemptions chop such a loop into many short steps, so it is counted here, by the
		// driver, and not per step.)
		if d := w.Steps - w.spinFrom; now == w.spinNow && d > w.SpinMax {
			w.SpinMax = d
		}
		if now != w.spinNow {
			w.spinNow, w.spinFrom = now, w.Steps
		} else if w.Steps-w.spinFrom > spinSteps && w.Viol == nil {
			w.Fail("BUSY_LOOP", "%d scheduler steps at the simulated instant %v and the clock still cannot advance: a goroutine of the code under test is runnable again and again without ever waiting (last released: %s)", w.Steps-w.spinFrom, now, w.lastReleased)

			return "stopped"
		}
		// candidates
		parked := w.S.Parked()
		var cands []*simhook.G
		var nextStall int64
		for _, g := range parked {
			if g.StallUntil != 0 && int64(now) < g.StallUntil {
				if nextStall == 0 || g.StallUntil < nextStall {
					nextStall = g.StallUntil
				}

				continue
			}
			cands = append(cands, g)
		}
		due := w.dueEvents(now)
		n := len(cands) + len(due)
		if n == 0 {
			// nothing runnable now: sleep until something parks, the next event is due, a stall
			// ends or the horizon — everything is then durably blocked and the fake clock jumps.
			wait := horizon - now
			if next := w.nextEventAt(); next >= 0 && next-now < wait {
				wait = next - now
			}
			if nextStall != 0 && time.Duration(nextStall)-now < wait {
				wait = time.Duration(nextStall) - now
			}
			if wait <= 0 {
				wait = 1
			}
			tm := time.NewTimer(wait)
			select {
			case <-w.S.Wake():
			case <-tm.C:
			}
			tm.Stop()

			continue
		}
		w.Steps++
		k := w.pick(cands, due)
		if k < len(cands) {
			w.lastReleased = cands[k].ID + " at " + cands[k].Site
			w.S.Release(cands[k])
		} else {
			e := due[k-len(cands)]
			w.removeEvent(e)
			w.S.ClearRunner()
			w.Logf("event %s", e.Label)
			e.Run()
		}
	}
}

func (w *World) dueEvents(now time.Duration) []*Event {
	// drop dead events at the top, then collect all due ones in (At, Seq) order
	for len(w.events) > 0 && w.events[0].dead {
		heap.Pop(&w.events)
	}
	var due []*Event
	for _, e := range w.events {
		if !e.dead && e.At <= now {
			due = append(due, e)
		}
	}
	sort.Slice(due, func(i, j int) bool {
		if due[i].At != due[j].At {
			return due[i].At < due[j].At
		}

		return due[i].Seq < due[j].Seq
	})

	return due
}

func (w *World) nextEventAt() time.Duration {
	for len(w.events) > 0 && w.events[0].dead {
		heap.Pop(&w.events)
	}
	if len(w.events) == 0 {
		return -1
	}

	return w.events[0].At
}

func (w *World) removeEvent(e *Event) {
	heap.Remove(&w.events, e.idx)
}

// PendingEvents returns the number of scheduled (not yet run) events.
func (w *World) PendingEvents() int {
	n := 0
	for _, e := range w.events {
		if !e.dead {
			n++
		}
	}

	return n
}

func (w *World) pick(cands []*simhook.G, due []*Event) int {
	n := len(cands) + len(due)
	if n == 1 {
		return 0
	}
	if w.Strat.PCTDepth > 0 {
		// highest priority goroutine first; events are taken before goroutines with probability 1/2
		if len(due) > 0 && (len(cands) == 0 || w.T.Bias("sched", 1, 2)) {
			return len(cands) + w.T.Choose("sched", len(due))
		}
		best, bp := 0, -1<<30
		for i, g := range cands {
			p, ok := w.prio[g.ID]
			if !ok {
				if w.prio == nil {
					w.prio = map[string]int{}
				}
				p = 1000 + w.T.Choose("sched", 1000)
				w.prio[g.ID] = p
			}
			if p > bp {
				best, bp = i, p
			}
		}

		return best
	}
	if w.Strat.RandomPick {
		return w.T.Choose("sched", n)
	}
	// simplest: due events first in time order, then the lowest goroutine id
	if len(due) > 0 {
		return len(cands)
	}

	return 0
}

// NthHold withholds a goroutine at the (Skip+1)-th hook whose site starts with Prefix that a goroutine
// accepted by Filter passes after the hold was armed, for D of simulated time. Sweeping Skip over a
// small range from the tape walks a long preemption through every step of a short code path (the
// supervisor's step, a commit on the receive path) — windows a few instructions wide that random
// preemption has to hit by starving one goroutine through dozens of hooks of another.
type NthHold struct {
	Prefix string
	Filter func(g *simhook.G) bool
	Skip   int
	D      time.Duration
	Label  string
	OnFire func(g *simhook.G) // told when the hold fires (optional)
}

// TrackRoles records, for every parked goroutine whose site starts with one of the given prefixes,
// the role that goes with it (first match wins, a role once given is kept). Call it from a monitor.
func (w *World) TrackRoles(byPrefix [][2]string) {
	if w.Roles == nil {
		w.Roles = map[string]string{}
	}
	for _, g := range w.S.Parked() {
		if _, ok := w.Roles[g.ID]; ok {
			continue
		}
		for _, pr := range byPrefix {
			if strings.HasPrefix(g.Site, pr[0]) {
				w.Roles[g.ID] = pr[1]

				break
			}
		}
	}
}

const spinLimit = 300000
const spinSteps = 5000

// policy implements simhook.Policy on top of the world's tape.
type policy World

func (p *policy) Preempt(g *simhook.G, site string) bool {
	w := (*World)(p)
	// busy-loop detector: a goroutine that passes hundreds of thousands of scheduling points within ONE
	// driver step never blocks and never lets simulated time advance — code under test that spins (for
	// example a read loop that keeps retrying on a closed socket). Without this the worker would hang
	// until the coordinator's wall-clock watchdog fired (an infrastructure error, not a verdict).
	if w.spinStep != w.Steps {
		w.spinStep, w.spinHooks = w.Steps, 0
	}
	if w.spinHooks++; w.spinHooks > spinLimit {
		if w.Viol == nil {
			w.Fail("BUSY_LOOP", "goroutine %s passed %d scheduling points in a row (the last one: %s) without blocking or letting simulated time advance: the code under test is spinning", g.ID, w.spinHooks, site)
		}
		g.StallUntil = int64(w.Now() + 24*time.Hour)

		return true
	}
	st := &w.Strat
	if len(w.HoldAt) > 0 {
		// a targeted scheduling fault armed by the harness: the next goroutine to reach this site (a key
		// ending in '*' matches by prefix) is withheld there for d of simulated time while everything
		// else proceeds (one shot)
		key, d, ok := site, time.Duration(0), false
		if d, ok = w.HoldAt[site]; !ok {
			for k, v := range w.HoldAt {
				if n := len(k); n > 0 && k[n-1] == '*' && len(site) >= n-1 && site[:n-1] == k[:n-1] && (w.HoldApp == nil || w.HoldApp(g)) {
					if !ok || k < key { // (map order is random: the smallest matching key wins)
						key, d, ok = k, v, true
					}
				}
			}
		}
		if ok {
			delete(w.HoldAt, key)
			g.StallUntil = int64(w.Now() + d)
			w.Stalls++
			w.Fault("hold@" + key)
			if w.OnHold != nil {
				w.OnHold(g, site, d)
			}

			return true
		}
	}
	for i, nh := range w.HoldNth {
		if len(site) < len(nh.Prefix) || site[:len(nh.Prefix)] != nh.Prefix || (nh.Filter != nil && !nh.Filter(g)) {
			continue
		}
		if nh.Skip > 0 {
			nh.Skip--

			continue
		}
		w.HoldNth = append(w.HoldNth[:i:i], w.HoldNth[i+1:]...)
		g.StallUntil = int64(w.Now() + nh.D)
		w.Stalls++
		w.Fault("hold-nth@" + nh.Label)
		if nh.OnFire != nil {
			nh.OnFire(g)
		}

		return true
	}
	if st.PCTDepth > 0 {
		// PCT: at a change point the runner's priority drops below everything else
		if st.PreemptDen > 0 && w.T.Bias("sched", st.PreemptNum, st.PreemptDen) {
			if w.prio == nil {
				w.prio = map[string]int{}
			}
			w.prio[g.ID] = -int(w.S.Hooks)

			return true
		}

		return false
	}
	if st.BiasSite != "" && len(site) >= len(st.BiasSite) && site[:len(st.BiasSite)] == st.BiasSite {
		return w.T.Bias("sched", 1, 2)
	}
	if st.PreemptDen == 0 {
		return false
	}

	return w.T.Bias("sched", st.PreemptNum, st.PreemptDen)
}

func (p *policy) Order(n int, site string) []int {
	w := (*World)(p)
	ord := make([]int, n)
	for i := range ord {
		ord[i] = i
	}
	if !w.Strat.RandomPick && w.Strat.PreemptDen == 0 {
		return ord
	}
	for i := 0; i < n-1; i++ {
		j := i + w.T.Choose("sel", n-i)
		ord[i], ord[j] = ord[j], ord[i]
	}

	return ord
}

func (p *policy) Pick(n int, site string) int {
	w := (*World)(p)

	return w.T.Choose("sel", n)
}

// Finish switches to free-run mode and lets the bubble wind down. drain is called repeatedly
// (it should close connections etc.); the function returns the number of registered goroutines
// still alive after the grace period.
func (w *World) Finish(grace time.Duration) int {
	w.S.FreeRun()
	deadline := w.Now() + grace
	for w.S.Live() > 0 && w.Now() < deadline {
		synctest.Wait()
		if w.S.Live() == 0 {
			break
		}
		time.Sleep(grace / 16)
	}
	synctest.Wait()
	n := w.S.Live()
	simhook.Uninstall()

	return n
}

// StallG withholds an application goroutine for d of simulated time (the gstall fault).
func (w *World) StallG(g *simhook.G, d time.Duration) {
	g.StallUntil = int64(w.Now() + d)
	w.Stalls++
	w.Fault("gstall")
}

// Sleep blocks the calling application goroutine for d of simulated time and re-enters the
// scheduler afterwards (harness code is not instrumented, so it must not use time.Sleep directly).
func Sleep(d time.Duration) {
	simhook.Yield("app.sleep")
	if s := simhook.Current(); s != nil {
		s.Poke() // let the driver re-evaluate monitors: the caller may have changed harness state
	}
	time.Sleep(d)
	simhook.Resume("app.sleep")
}
