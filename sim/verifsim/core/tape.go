// Package core is the deterministic simulator: choice tape, driver loop, event queue, event log.
package core

import (
	"encoding/json"
	"fmt"
	"math/rand"
	"os"
	"sort"
)

// Tape is the single source of every decision of a run. It is organised in named streams so that
// minimising one kind of decision (say, scheduling) does not shift the positions of another (say,
// the generated scenario). In generation mode choices are drawn from a PRNG seeded from the run's
// seed and recorded; in replay mode they are read back, and past the end of a stream every choice
// is 0, which by convention is always the simplest alternative.
type Tape struct {
	Seed    int64
	streams map[string]*stream
	replay  bool
	rng     *rand.Rand
	Draws   uint64
}

type stream struct {
	vals []uint32
	pos  int
}

// NewTape returns a generating tape.
func NewTape(seed int64) *Tape {
	return &Tape{Seed: seed, streams: map[string]*stream{}, rng: rand.New(rand.NewSource(seed))}
}

// ReplayTape returns a tape that replays recorded streams.
func ReplayTape(seed int64, rec map[string][]uint32) *Tape {
	t := &Tape{Seed: seed, streams: map[string]*stream{}, replay: true}
	for k, v := range rec {
		t.streams[k] = &stream{vals: append([]uint32(nil), v...)}
	}

	return t
}

func (t *Tape) st(name string) *stream {
	s := t.streams[name]
	if s == nil {
		s = &stream{}
		t.streams[name] = s
	}

	return s
}

// Choose returns a value in [0,n). In generation mode it is uniform.
func (t *Tape) Choose(name string, n int) int {
	if n <= 1 {
		return 0
	}
	t.Draws++
	s := t.st(name)
	if t.replay {
		if s.pos >= len(s.vals) {
			s.pos++

			return 0
		}
		v := s.vals[s.pos]
		s.pos++

		return int(v % uint32(n))
	}
	v := uint32(t.rng.Intn(n))
	s.vals = append(s.vals, v)
	s.pos++

	return int(v)
}

// Bias returns true with probability num/den in generation mode; 0 (false) is the simple choice.
func (t *Tape) Bias(name string, num, den int) bool {
	t.Draws++
	s := t.st(name)
	if t.replay {
		if s.pos >= len(s.vals) {
			s.pos++

			return false
		}
		v := s.vals[s.pos]
		s.pos++

		return v != 0
	}
	var v uint32
	if num > 0 && t.rng.Intn(den) < num {
		v = 1
	}
	s.vals = append(s.vals, v)
	s.pos++

	return v != 0
}

// Weighted picks an index with the given weights (index 0 should be the simplest alternative).
func (t *Tape) Weighted(name string, weights ...int) int {
	t.Draws++
	s := t.st(name)
	if t.replay {
		if s.pos >= len(s.vals) {
			s.pos++

			return 0
		}
		v := s.vals[s.pos]
		s.pos++

		return int(v % uint32(len(weights)))
	}
	total := 0
	for _, w := range weights {
		total += w
	}
	r := t.rng.Intn(total)
	idx := 0
	for i, w := range weights {
		if r < w {
			idx = i

			break
		}
		r -= w
	}
	s.vals = append(s.vals, uint32(idx))
	s.pos++

	return idx
}

// Range returns a value in [lo,hi].
func (t *Tape) Range(name string, lo, hi int) int {
	if hi <= lo {
		return lo
	}

	return lo + t.Choose(name, hi-lo+1)
}

// Record returns the recorded streams, truncated to what was consumed.
func (t *Tape) Record() map[string][]uint32 {
	out := map[string][]uint32{}
	for k, s := range t.streams {
		n := s.pos
		if n > len(s.vals) {
			n = len(s.vals)
		}
		v := append([]uint32{}, s.vals[:n]...)
		// trailing zeros carry no information
		for len(v) > 0 && v[len(v)-1] == 0 {
			v = v[:len(v)-1]
		}
		out[k] = v
	}

	return out
}

// Consumed reports how many words of each stream were consumed (for the minimiser).
func (t *Tape) Consumed() map[string]int {
	out := map[string]int{}
	for k, s := range t.streams {
		out[k] = s.pos
	}

	return out
}

// ReplayFile is the on-disk form of a failing run.
type ReplayFile struct {
	Property string              `json:"property"`
	Class    string              `json:"class"`
	Message  string              `json:"message"`
	Seed     int64               `json:"seed"`
	Config   string              `json:"config"`
	Streams  map[string][]uint32 `json:"streams"`
	LogHash  string              `json:"log_hash"`
	Scenario any                 `json:"scenario,omitempty"`
	Trace    []string            `json:"trace,omitempty"`
	Words    int                 `json:"tape_words"`
}

// Save writes the replay file.
func (r *ReplayFile) Save(path string) error {
	r.Words = 0
	for _, v := range r.Streams {
		r.Words += len(v)
	}
	b, err := json.MarshalIndent(r, "", " ")
	if err != nil {
		return err
	}

	return os.WriteFile(path, b, 0o644)
}

// LoadReplay reads a replay file.
func LoadReplay(path string) (*ReplayFile, error) {
	b, err := os.ReadFile(path)
	if err != nil {
		return nil, err
	}
	var r ReplayFile
	if err := json.Unmarshal(b, &r); err != nil {
		return nil, fmt.Errorf("%s: %w", path, err)
	}

	return &r, nil
}

// StreamNames returns the stream names in sorted order.
func StreamNames(m map[string][]uint32) []string {
	var ks []string
	for k := range m {
		ks = append(ks, k)
	}
	sort.Strings(ks)

	return ks
}
