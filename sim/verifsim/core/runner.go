package core

import (
	"bufio"
	"encoding/json"
	"flag"
	"fmt"
	"os"
	"runtime"
	"runtime/debug"
	"sort"
	"strings"
	"testing"
	"testing/synctest"
	"time"

	"github.com/arloliu/go-secs/v2/verifsim/simhook"
)

// Scenario is one property harness: Build creates the system inside the bubble and returns
// (description, done predicate, horizon, check-at-end, cleanup).
type Scenario struct {
	// Desc is a human-readable description of the generated scenario (goes into replay files and
	// evidence samples).
	Desc any
	// Done, if non-nil, ends the run early when it returns true (evaluated by the driver).
	Done func() bool
	// Horizon bounds simulated time.
	Horizon time.Duration
	// Final is evaluated by the driver after the run loop ends (history oracles). It may call w.Fail.
	Final func(reason string)
	// Cleanup runs in free-run mode after the verdict (close connections so the bubble can end).
	Cleanup func()
	// Nontrivial classifies the run for evidence (e.g. "faults fired and data flowed").
	Nontrivial func() bool
	// Tag / TagSpace: for enumerating configurations, the identifier of the enumerated case this run
	// executed and the size of the enumerated space (the coordinator reports covered / total).
	Tag      string
	TagSpace int
}

// BuildFunc builds a scenario from the tape inside the bubble.
type BuildFunc func(w *World) *Scenario

// Result is what one run produced.
type Result struct {
	Seed                 int64               `json:"seed"`
	Config               string              `json:"config"`
	Class                string              `json:"class,omitempty"`
	Msg                  string              `json:"msg,omitempty"`
	Hash                 string              `json:"hash"`
	Reason               string              `json:"reason"`
	Steps                uint64              `json:"steps"`
	Hooks                uint64              `json:"hooks"`
	Preempts             uint64              `json:"preempts"`
	MaxStepsAtOneInstant uint64              `json:"max_steps_at_one_instant,omitempty"`
	SimNS                int64               `json:"sim_ns"`
	WallUS               int64               `json:"wall_us"`
	Strategy             string              `json:"strategy"`
	Faults               map[string]int      `json:"faults,omitempty"`
	Probes               map[string]int      `json:"probes,omitempty"`
	Leaked               int                 `json:"leaked,omitempty"`
	LeakIDs              []string            `json:"leak_ids,omitempty"`
	Nontrivial           bool                `json:"nontrivial"`
	Desc                 any                 `json:"desc,omitempty"`
	Streams              map[string][]uint32 `json:"streams,omitempty"`
	Trace                []string            `json:"trace,omitempty"`
	Infra                string              `json:"infra,omitempty"`
	CleanupStuck         bool                `json:"cleanup_stuck,omitempty"` // the end-of-run cleanup did not return within 30 simulated minutes
	AnonHooks            uint64              `json:"anon_hooks,omitempty"`
	Tag                  string              `json:"tag,omitempty"`
	TagSpace             int                 `json:"tag_space,omitempty"`
}

// panicSink collects panics of registered goroutines (set per run).
var panicSink func(id string, v any, stack []byte)

func init() {
	simhook.OnPanic = func(id string, v any, stack []byte) {
		if panicSink != nil {
			panicSink(id, v, stack)
		}
	}
}

// drawStrategy picks the run's scheduling strategy from the tape (swarm style).
func drawStrategy(t *Tape) Strategy {
	switch t.Weighted("strat", 2, 3, 3, 2, 2, 2) {
	case 0:
		return Strategy{Name: "fifo"}
	case 1:
		return Strategy{Name: "random-1e-2", PreemptNum: 1, PreemptDen: 100, RandomPick: true}
	case 2:
		return Strategy{Name: "random-1e-1", PreemptNum: 1, PreemptDen: 10, RandomPick: true}
	case 3:
		return Strategy{Name: "random-1e-3", PreemptNum: 1, PreemptDen: 1000, RandomPick: true}
	case 4:
		d := 1 + t.Choose("strat", 3)
		return Strategy{Name: fmt.Sprintf("pct-%d", d), PCTDepth: d, PreemptNum: d, PreemptDen: 2000}
	default:
		sites := []string{"atomic.", "mu.", "net.", "select@", "wg."}
		site := sites[t.Choose("strat", len(sites))]
		return Strategy{Name: "site-" + site, BiasSite: site, RandomPick: true, PreemptNum: 1, PreemptDen: 200}
	}
}

// RunOne executes one simulated run in a fresh bubble.
func RunOne(t *testing.T, tape *Tape, config string, keepTrace bool, build BuildFunc) *Result {
	res := &Result{Seed: tape.Seed, Config: config}
	start := time.Now()
	ok := t.Run(fmt.Sprintf("seed%d", tape.Seed), func(t *testing.T) {
		defer func() {
			if r := recover(); r != nil {
				msg := fmt.Sprint(r)
				if strings.Contains(msg, "blocked goroutines remain") || strings.Contains(msg, "deadlock") {
					if res.Leaked == 0 {
						res.Leaked = -1
					}
					res.Infra = msg
				} else {
					res.Class = "PANIC"
					res.Msg = "driver panic: " + msg + "\n" + string(debug.Stack())
				}
				simhook.Uninstall()
			}
		}()
		synctest.Test(t, func(t *testing.T) {
			st := drawStrategy(tape)
			w := NewWorld(tape, st)
			w.Keep = keepTrace
			res.Strategy = st.Name
			panicSink = func(id string, v any, stack []byte) {
				w.Fail("PANIC", "goroutine %s panicked: %v\n%s", id, v, stack)
			}
			sc := build(w)
			res.Desc = sc.Desc
			res.Tag, res.TagSpace = sc.Tag, sc.TagSpace
			reason := w.Run(sc.Horizon, sc.Done)
			if sc.Final != nil && w.Viol == nil {
				sc.Final(reason)
			}
			res.Reason = reason
			res.Steps = w.Steps
			res.Hooks = w.S.Hooks
			res.Preempts = w.S.Preempt
			res.MaxStepsAtOneInstant = w.SpinMax
			res.AnonHooks = w.S.AnonHit
			res.SimNS = int64(w.Now())
			res.Hash = w.Hash()
			res.Faults = w.Faults
			res.Probes = w.Probes
			if sc.Nontrivial != nil {
				res.Nontrivial = sc.Nontrivial()
			}
			if w.Viol != nil {
				res.Class = w.Viol.Class
				res.Msg = w.Viol.Msg
			}
			res.Trace = append([]string(nil), w.Trace...)
			// wind down
			w.S.FreeRun()
			panicSink = nil
			if sc.Cleanup != nil {
				// The cleanup (closing the connections under test) runs beside the driver and is bounded in
				// simulated time: code under test that never returns while some goroutine keeps polling
				// would otherwise keep the bubble alive for ever (it can neither finish nor deadlock).
				cdone := make(chan any, 1)
				go func() {
					defer func() { cdone <- recover() }()
					sc.Cleanup()
				}()
				tm := time.NewTimer(30 * time.Minute)
				select {
				case r := <-cdone:
					tm.Stop()
					if r != nil {
						panic(r)
					}
				case <-tm.C:
					res.CleanupStuck = true
					simhook.Poison()
				}
			}
			if simhook.SpunInWindDown.Load() {
				res.CleanupStuck = true
				if res.Class == "" {
					res.Class = "BUSY_LOOP"
					res.Msg = "during the wind-down (Close of the connections under test) the code under test passed millions of scheduling points while the simulated clock could not advance: some goroutine is spinning (a read or retry loop that never blocks), and Close is waiting for it"
				}
			}
			left := w.Finish(2 * time.Hour)
			if left > 0 {
				res.Leaked = left
				res.LeakIDs = w.S.LiveIDs()
			}
		})
	})
	_ = ok
	res.WallUS = time.Since(start).Microseconds()
	if res.Class != "" {
		res.Streams = tape.Record()
	}

	return res
}

// ---- worker main ----

var (
	fMode    = flag.String("sim.mode", "range", "range | replay | minimise")
	fSeed0   = flag.Int64("sim.seed0", 1, "first seed")
	fN       = flag.Int("sim.n", 100, "number of seeds")
	fStride  = flag.Int64("sim.stride", 1, "seed stride")
	fOut     = flag.String("sim.out", "", "JSONL output file (default stdout)")
	fReplay  = flag.String("sim.replay", "", "replay file")
	fConfig  = flag.String("sim.config", "", "configuration name (harness specific)")
	fBudget  = flag.Int("sim.budget", 0, "wall-clock budget in seconds for range mode (0 = none)")
	fMinOut  = flag.String("sim.minout", "", "minimise: output replay file")
	fMinRuns = flag.Int("sim.minruns", 600, "minimise: max replays")
	fTrace   = flag.Bool("sim.trace", false, "keep the full event trace")
)

// Property describes a harness to the worker.
type Property struct {
	ID      string
	Configs []string // first is the default
	Build   func(config string) BuildFunc
}

// WorkerMain is called from a Test function of each property's harness package.
func WorkerMain(t *testing.T, p Property) {
	runtime.GOMAXPROCS(1)
	out := os.Stdout
	if *fOut != "" {
		f, err := os.OpenFile(*fOut, os.O_CREATE|os.O_WRONLY|os.O_APPEND, 0o644)
		if err != nil {
			t.Fatal(err)
		}
		defer f.Close()
		out = f
	}
	bw := bufio.NewWriter(out)
	defer bw.Flush()
	emit := func(v any) {
		b, _ := json.Marshal(v)
		bw.Write(b)
		bw.WriteByte('\n')
		bw.Flush()
	}
	cfg := *fConfig
	if cfg == "" {
		cfg = p.Configs[0]
	}
	switch *fMode {
	case "range":
		deadline := time.Time{}
		if *fBudget > 0 {
			deadline = time.Now().Add(time.Duration(*fBudget) * time.Second)
		}
		for i := 0; i < *fN; i++ {
			if !deadline.IsZero() && time.Now().After(deadline) {
				break
			}
			seed := *fSeed0 + int64(i)**fStride
			emit(map[string]any{"start": seed, "config": cfg})
			r := RunOne(t, NewTape(seed), cfg, *fTrace, p.Build(cfg))
			if r.Class == "" && !*fTrace {
				r.Trace = nil
				if i%97 != 0 {
					r.Desc = nil
				}
			}
			emit(r)
		}
		emit(map[string]any{"end": true})
	case "replay":
		rf, err := LoadReplay(*fReplay)
		if err != nil {
			t.Fatal(err)
		}
		if rf.Config != "" {
			cfg = rf.Config
		}
		r := RunOne(t, ReplayTape(rf.Seed, rf.Streams), cfg, true, p.Build(cfg))
		if !*fTrace && r.Class == "" {
			r.Trace = nil
		}
		emit(r)
	case "minimise":
		rf, err := LoadReplay(*fReplay)
		if err != nil {
			t.Fatal(err)
		}
		if rf.Config != "" {
			cfg = rf.Config
		}
		min, runs, last := Minimise(t, rf, cfg, p.Build(cfg), *fMinRuns)
		min.Property = p.ID
		if last != nil {
			min.Message = last.Msg
			min.LogHash = last.Hash
			min.Scenario = last.Desc
			tr := last.Trace
			if len(tr) > 300 {
				tr = tr[len(tr)-300:]
			}
			min.Trace = tr
		}
		if *fMinOut != "" {
			if err := min.Save(*fMinOut); err != nil {
				t.Fatal(err)
			}
		}
		emit(map[string]any{"minimised": true, "runs": runs, "words": min.Words, "class": min.Class})
	default:
		t.Fatalf("unknown mode %q", *fMode)
	}
}

// Minimise shrinks a failing tape while the same violation class persists.
func Minimise(t *testing.T, rf *ReplayFile, cfg string, build BuildFunc, maxRuns int) (*ReplayFile, int, *Result) {
	cur := map[string][]uint32{}
	for k, v := range rf.Streams {
		cur[k] = append([]uint32(nil), v...)
	}
	runs := 0
	var last *Result
	try := func(cand map[string][]uint32) bool {
		if runs >= maxRuns {
			return false
		}
		runs++
		r := RunOne(t, ReplayTape(rf.Seed, cand), cfg, true, build)
		if r.Class == rf.Class {
			last = r

			return true
		}

		return false
	}
	clone := func(m map[string][]uint32) map[string][]uint32 {
		o := map[string][]uint32{}
		for k, v := range m {
			o[k] = append([]uint32(nil), v...)
		}

		return o
	}
	if !try(cur) {
		// does not reproduce in-process: give it back unchanged
		out := *rf

		return &out, runs, nil
	}
	names := StreamNames(cur)
	// order: schedule-ish streams first (most words), scenario last
	sort.SliceStable(names, func(i, j int) bool { return len(cur[names[i]]) > len(cur[names[j]]) })
	changed := true
	for pass := 0; pass < 4 && changed && runs < maxRuns; pass++ {
		changed = false
		for _, name := range names {
			// 1. truncate (binary search on length)
			lo, hi := 0, len(cur[name])
			for lo < hi && runs < maxRuns {
				mid := (lo + hi) / 2
				c := clone(cur)
				c[name] = c[name][:mid]
				if try(c) {
					hi = mid
					cur = c
					changed = true
				} else {
					lo = mid + 1
				}
			}
			// 2. zero blocks (ddmin style)
			for blk := len(cur[name]) / 2; blk >= 1 && runs < maxRuns; blk /= 2 {
				for off := 0; off < len(cur[name]) && runs < maxRuns; off += blk {
					end := off + blk
					if end > len(cur[name]) {
						end = len(cur[name])
					}
					allZero := true
					for _, v := range cur[name][off:end] {
						if v != 0 {
							allZero = false

							break
						}
					}
					if allZero {
						continue
					}
					c := clone(cur)
					for i := off; i < end; i++ {
						c[name][i] = 0
					}
					if try(c) {
						cur = c
						changed = true
					}
				}
			}
			// 3. delete single words of short streams (scenario streams) and lower values
			if len(cur[name]) <= 64 {
				for i := 0; i < len(cur[name]) && runs < maxRuns; i++ {
					if cur[name][i] > 1 {
						c := clone(cur)
						c[name][i] /= 2
						if try(c) {
							cur = c
							changed = true
							i--
						}
					}
				}
			}
		}
	}
	for k, v := range cur {
		for len(v) > 0 && v[len(v)-1] == 0 {
			v = v[:len(v)-1]
		}
		cur[k] = v
	}
	out := &ReplayFile{Property: rf.Property, Class: rf.Class, Seed: rf.Seed, Config: cfg, Streams: cur}
	// final confirmation run with the trimmed tape (also refreshes last)
	if !try(cur) && last == nil {
		o := *rf

		return &o, runs, nil
	}

	return out, runs, last
}
