package core

import (
	"fmt"
	"strings"

	"github.com/arloliu/go-secs/v2/logger"
)

// SimLogger is the logger.Logger handed to the library under simulation. Error records that
// report a swallowed panic are turned into PANIC violations (standing invariant W2); everything
// else is counted. It never draws from the tape and never reads a real clock.
type SimLogger struct {
	w      *World
	Errors []string
	Warns  int
	// AllowPanic lets a harness that installs panicking handlers on purpose suppress W2.
	AllowPanic func(msg string) bool
	OnWarn     func(msg string, kv []any)
}

// NewLogger returns a logger bound to w.
func NewLogger(w *World) *SimLogger { return &SimLogger{w: w} }

func kvString(kv []any) string {
	var sb strings.Builder
	for i := 0; i+1 < len(kv); i += 2 {
		fmt.Fprintf(&sb, " %v=%v", kv[i], kv[i+1])
	}

	return sb.String()
}

func (l *SimLogger) Debug(msg string, kv ...any) {}
func (l *SimLogger) Info(msg string, kv ...any)  {}
func (l *SimLogger) Warn(msg string, kv ...any) {
	l.Warns++
	if l.OnWarn != nil {
		l.OnWarn(msg, kv)
	}
}

func (l *SimLogger) Error(msg string, kv ...any) {
	full := msg + kvString(kv)
	l.Errors = append(l.Errors, full)
	if strings.Contains(msg, "panicked") || strings.Contains(msg, "panic") {
		if l.AllowPanic != nil && l.AllowPanic(full) {
			return
		}
		l.w.Fail("PANIC", "library logged a swallowed panic: %s", full)
	}
}

func (l *SimLogger) Fatal(msg string, kv ...any) {
	l.w.Fail("PANIC", "library logged Fatal: %s%s", msg, kvString(kv))
}
func (l *SimLogger) With(kv ...any) logger.Logger   { return l }
func (l *SimLogger) Level() logger.LogLevel         { return logger.WarnLevel }
func (l *SimLogger) SetLevel(level logger.LogLevel) {}
