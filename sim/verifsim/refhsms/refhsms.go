// Package refhsms is an independent, event-driven reference HSMS (SEMI E37 / E37.1) peer used by
// the simulator. It has its own framing and header packing written from the standard's tables
// and never calls the library's encoders or decoders. It runs entirely on the simulator's driver.
package refhsms

import (
	"encoding/binary"
	"fmt"
	"time"

	"github.com/arloliu/go-secs/v2/verifsim/core"
	"github.com/arloliu/go-secs/v2/verifsim/simnet"
)

// STypes (E37 table 3).
const (
	STData        = 0
	STSelectReq   = 1
	STSelectRsp   = 2
	STDeselectReq = 3
	STDeselectRsp = 4
	STLinktestReq = 5
	STLinktestRsp = 6
	STRejectReq   = 7
	STSeparateReq = 9
)

// Header is the 10-byte HSMS message header, unpacked.
type Header struct {
	Session uint16
	B2      byte // W-bit|stream for data; status / reject subject for control
	B3      byte // function for data; status / reason for control
	PType   byte
	SType   byte
	Sys     uint32
}

// Pack returns the 10 header bytes.
func (h Header) Pack() [10]byte {
	var b [10]byte
	binary.BigEndian.PutUint16(b[0:2], h.Session)
	b[2] = h.B2
	b[3] = h.B3
	b[4] = h.PType
	b[5] = h.SType
	binary.BigEndian.PutUint32(b[6:10], h.Sys)

	return b
}

// Unpack parses 10 header bytes.
func Unpack(b []byte) Header {
	return Header{
		Session: binary.BigEndian.Uint16(b[0:2]),
		B2:      b[2], B3: b[3], PType: b[4], SType: b[5],
		Sys: binary.BigEndian.Uint32(b[6:10]),
	}
}

// Stream returns the stream number of a data header.
func (h Header) Stream() byte { return h.B2 & 0x7F }

// W reports the W-bit of a data header.
func (h Header) W() bool { return h.B2&0x80 != 0 }

// Function returns the function number of a data header.
func (h Header) Function() byte { return h.B3 }

func (h Header) String() string {
	if h.SType == 0 && h.PType == 0 {
		w := ""
		if h.W() {
			w = "W"
		}

		return fmt.Sprintf("S%dF%d%s sess=%d sys=%d", h.Stream(), h.Function(), w, h.Session, h.Sys)
	}

	return fmt.Sprintf("ctl stype=%d ptype=%d b2=%d b3=%d sess=%d sys=%d", h.SType, h.PType, h.B2, h.B3, h.Session, h.Sys)
}

// Frame builds a complete on-wire frame (4-byte length, header, body).
func Frame(h Header, body []byte) []byte {
	out := make([]byte, 4, 14+len(body))
	binary.BigEndian.PutUint32(out, uint32(10+len(body)))
	hb := h.Pack()
	out = append(out, hb[:]...)
	out = append(out, body...)

	return out
}

// DataHeader builds a data message header.
func DataHeader(session uint16, stream, function byte, w bool, sys uint32) Header {
	b2 := stream & 0x7F
	if w {
		b2 |= 0x80
	}

	return Header{Session: session, B2: b2, B3: function, SType: STData, Sys: sys}
}

// ASCII encodes a SECS-II ASCII item (format 0o20) by hand (1, 2 or 3 length bytes as needed).
func ASCII(s string) []byte {
	n := len(s)
	switch {
	case n <= 0xFF:
		return append([]byte{0x41, byte(n)}, s...)
	case n <= 0xFFFF:
		return append([]byte{0x42, byte(n >> 8), byte(n)}, s...)
	default:
		return append([]byte{0x43, byte(n >> 16), byte(n >> 8), byte(n)}, s...)
	}
}

// ParseASCII decodes a body produced by ASCII (ok=false if it is not a single ASCII item).
func ParseASCII(b []byte) (string, bool) {
	if len(b) < 2 || b[0]&0xFC != 0x40 {
		return "", false
	}
	nl := int(b[0] & 3)
	if nl == 0 || len(b) < 1+nl {
		return "", false
	}
	n := 0
	for i := 0; i < nl; i++ {
		n = n<<8 | int(b[1+i])
	}
	if len(b) != 1+nl+n {
		return "", false
	}

	return string(b[1+nl:]), true
}

// RxFrame is a complete frame received from the library end.
type RxFrame struct {
	At   time.Duration
	Gen  int
	Seq  int // ordinal among all frames received by the peer in this run
	H    Header
	Body []byte
	// EndOff is the cumulative byte offset (in the library->peer stream of this connection) of the
	// frame's last byte; WrittenAt is when the library's Write call accepted that byte.
	EndOff    int
	WrittenAt time.Duration
}

// TxFrame is a frame the peer sent (or started to send).
type TxFrame struct {
	At    time.Duration // when the first byte was queued
	Done  time.Duration // arrival time of the last byte at the library end (as scheduled)
	Gen   int
	H     Header
	Body  []byte
	Bytes []byte
	Valid bool // well-formed frame
	// EndOff is the cumulative byte offset (peer->library stream) of the last byte.
	EndOff int
	C      *Conn
}

// DeliveredAt returns when the frame's last byte reached the library end's receive buffer (-1 =
// never: lost to a reset, a stall or the end of the run).
func (t *TxFrame) DeliveredAt() time.Duration { return t.C.L.ToLib().DeliveredAt(t.EndOff) }

// Conn is the peer's view of one TCP connection generation.
type Conn struct {
	P        *Peer
	L        *simnet.Link
	Gen      int
	buf      []byte
	Rx       []RxFrame
	Tx       []*TxFrame
	Selected bool // peer's own view: select completed on this connection
	EOF      bool
	RST      bool
	EOFAt    time.Duration
	OpenedAt time.Duration
	Garbage  bool // inbound stream lost framing (length < 10)
	Desynced bool // the library end had a Write fail: later bytes are not interpreted
	rxTotal  int
	lastTx   time.Duration
	rxOff    int
	txOff    int
}

// Peer is the reference peer.
type Peer struct {
	W     *core.World
	N     *simnet.Net
	Conns []*Conn
	RxAll []RxFrame
	// OnFrame is called for every complete inbound frame after the automatic behaviour ran.
	OnFrame func(c *Conn, f RxFrame)
	// OnOpen is called when a connection is established.
	OnOpen func(c *Conn)
	// OnEnd is called when the library end closed (EOF) or the link was reset.
	OnEnd func(c *Conn)
	// AutoSelectRsp: answer Select.req with this status (negative = do not answer).
	AutoSelectRsp int
	// AutoLinktest: answer Linktest.req.
	AutoLinktest bool
	// AutoDeselectRsp answers Deselect.req with status 0 and marks not selected.
	AutoDeselectRsp bool
	// Session id used for control frames the peer originates.
	Session uint16
	// CloseOnEOF: when the library end closes, close our direction too (FIN).
	CloseOnEOF bool
	sysNext    uint32
	// Accept decides whether a dial from the library is accepted (nil = yes).
	Accept func(gen int) bool
}

// New returns a peer with well-behaved defaults.
func New(w *core.World, n *simnet.Net) *Peer {
	return &Peer{W: w, N: n, AutoSelectRsp: 0, AutoLinktest: true, AutoDeselectRsp: true, Session: 0xFFFF, CloseOnEOF: true, sysNext: 0x70000000}
}

// NextSys returns fresh system bytes from the peer's own space.
func (p *Peer) NextSys() uint32 { p.sysNext++; return p.sysNext }

// Attach makes the peer the target of library dials (active library end).
func (p *Peer) Attach() {
	p.N.OnConnect = func(l *simnet.Link) simnet.RawEnd {
		if p.Accept != nil && !p.Accept(l.Gen) {
			return nil
		}
		c := &Conn{P: p, L: l, Gen: l.Gen, OpenedAt: p.W.Now()}
		l.Tag = c
		p.Conns = append(p.Conns, c)
		if p.OnOpen != nil {
			p.OnOpen(c)
		}

		return c
	}
}

// Connect dials a passive library end (driver context); nil if refused.
func (p *Peer) Connect(address string) *Conn {
	c := &Conn{P: p, OpenedAt: p.W.Now()}
	l := p.N.PeerConnect(address, c)
	if l == nil {
		return nil
	}
	c.L = l
	c.Gen = l.Gen
	l.Tag = c
	p.Conns = append(p.Conns, c)
	if p.OnOpen != nil {
		p.OnOpen(c)
	}

	return c
}

// Last returns the most recent connection (nil if none).
func (p *Peer) Last() *Conn {
	if len(p.Conns) == 0 {
		return nil
	}

	return p.Conns[len(p.Conns)-1]
}

// OnData implements simnet.RawEnd.
func (c *Conn) OnData(l *simnet.Link, b []byte) {
	if c.Garbage || c.Desynced {
		return
	}
	// bytes written after a failed Write call of the library end are not a frame stream (the
	// failed call may have torn a frame and the library has declared the connection dead)
	c.rxTotal += len(b)
	if bo := l.ToPeer().BrokenOff; bo >= 0 && c.rxTotal > bo {
		keep := len(b) - (c.rxTotal - bo)
		if keep < 0 {
			keep = 0
		}
		b = b[:keep]
		c.Desynced = true
		c.P.W.Probe("stream_ignored_after_failed_write")
	}
	c.buf = append(c.buf, b...)
	for len(c.buf) >= 4 {
		n := int(binary.BigEndian.Uint32(c.buf[:4]))
		if n < 10 || n > 1<<26 {
			c.Garbage = true
			c.P.W.Fail("WIRE", "library wrote a frame with length field %d on connection %d", n, c.Gen)

			return
		}
		if len(c.buf) < 4+n {
			return
		}
		c.rxOff += 4 + n
		f := RxFrame{At: c.P.W.Now(), Gen: c.Gen, Seq: len(c.P.RxAll), H: Unpack(c.buf[4:14]), Body: append([]byte(nil), c.buf[14:4+n]...),
			EndOff: c.rxOff, WrittenAt: l.ToPeer().WrittenAt(c.rxOff)}
		c.buf = c.buf[4+n:]
		c.Rx = append(c.Rx, f)
		c.P.RxAll = append(c.P.RxAll, f)
		c.P.W.Logf("peer rx gen=%d %s len=%d", c.Gen, f.H, len(f.Body))
		c.auto(f)
		if c.P.OnFrame != nil {
			c.P.OnFrame(c, f)
		}
	}
}

func (c *Conn) auto(f RxFrame) {
	p := c.P
	if f.H.PType != 0 {
		return
	}
	switch f.H.SType {
	case STSelectReq:
		if p.AutoSelectRsp >= 0 {
			if p.AutoSelectRsp == 0 {
				c.Selected = true
			}
			c.SendFrame(Header{Session: f.H.Session, B3: byte(p.AutoSelectRsp), SType: STSelectRsp, Sys: f.H.Sys}, nil)
		}
	case STSelectRsp:
		if f.H.B3 == 0 {
			c.Selected = true
		}
	case STLinktestReq:
		if p.AutoLinktest {
			c.SendFrame(Header{Session: 0xFFFF, SType: STLinktestRsp, Sys: f.H.Sys}, nil)
		}
	case STDeselectReq:
		if p.AutoDeselectRsp {
			c.Selected = false
			c.SendFrame(Header{Session: f.H.Session, SType: STDeselectRsp, Sys: f.H.Sys}, nil)
		}
	case STSeparateReq:
		c.Selected = false
	}
}

// OnEOF implements simnet.RawEnd.
func (c *Conn) OnEOF(l *simnet.Link) {
	c.EOF = true
	c.EOFAt = c.P.W.Now()
	c.Selected = false
	c.P.W.Logf("peer eof gen=%d", c.Gen)
	if len(c.buf) != 0 && !c.Garbage {
		c.P.W.Probe("torn_frame_at_eof")
	}
	if c.P.CloseOnEOF {
		l.FIN()
	}
	if c.P.OnEnd != nil {
		c.P.OnEnd(c)
	}
}

// OnRST implements simnet.RawEnd.
func (c *Conn) OnRST(l *simnet.Link) {
	if c.RST {
		return
	}
	c.RST = true
	c.EOFAt = c.P.W.Now()
	c.Selected = false
	if c.P.OnEnd != nil {
		c.P.OnEnd(c)
	}
}

// Alive reports whether the connection can still carry traffic.
func (c *Conn) Alive() bool { return !c.EOF && !c.RST }

// PartialBytes returns the bytes of an incomplete frame sitting in the peer's reassembly buffer.
func (c *Conn) PartialBytes() []byte { return c.buf }

// SendFrame sends a well-formed frame in one segment after the link's minimum latency.
func (c *Conn) SendFrame(h Header, body []byte) *TxFrame {
	return c.SendRaw(Frame(h, body), h, body, true)
}

// SendFrameCut sends a well-formed frame cut at the given offsets with the given inter-segment gaps.
func (c *Conn) SendFrameCut(h Header, body []byte, cuts []int, gaps []time.Duration) *TxFrame {
	return c.SendRawCut(Frame(h, body), h, body, true, cuts, gaps)
}

// SendRaw queues arbitrary bytes as one segment and records them.
func (c *Conn) SendRaw(b []byte, h Header, body []byte, valid bool) *TxFrame {
	return c.SendRawCut(b, h, body, valid, nil, nil)
}

// SendRawCut queues bytes cut at offsets cuts (ascending, within (0,len)); gaps[i] is the delay
// before segment i (gaps[0] before the first). Missing gaps default to the minimum latency.
func (c *Conn) SendRawCut(b []byte, h Header, body []byte, valid bool, cuts []int, gaps []time.Duration) *TxFrame {
	if !c.Alive() {
		return nil
	}
	lat := c.P.N.LatMin
	var chunks []simnet.Chunk
	prev := 0
	bounds := append(append([]int(nil), cuts...), len(b))
	total := time.Duration(0)
	for i, end := range bounds {
		if end <= prev || end > len(b) {
			continue
		}
		d := lat
		if i < len(gaps) {
			d = gaps[i]
		}
		total += d
		chunks = append(chunks, simnet.Chunk{Data: b[prev:end], Delay: d})
		prev = end
	}
	now := c.P.W.Now()
	start := now
	if c.lastTx > start {
		start = c.lastTx
	}
	c.lastTx = start + total
	c.txOff += len(b)
	tx := &TxFrame{At: now, Done: start + total, Gen: c.Gen, H: h, Body: body, Bytes: b, Valid: valid, EndOff: c.txOff, C: c}
	c.Tx = append(c.Tx, tx)
	c.P.W.Logf("peer tx gen=%d %s len=%d segs=%d", c.Gen, h, len(body), len(chunks))
	c.L.Send(chunks...)

	return tx
}

// SelectReq sends a Select.req and returns its system bytes.
func (c *Conn) SelectReq() uint32 {
	sys := c.P.NextSys()
	c.SendFrame(Header{Session: c.P.Session, SType: STSelectReq, Sys: sys}, nil)

	return sys
}
