// Package simatomic wraps sync/atomic so that every atomic operation of the module under test
// is a scheduling point. The operations themselves are the real ones.
package simatomic

import (
	ratomic "sync/atomic"
	"unsafe"

	"github.com/arloliu/go-secs/v2/verifsim/simhook"
)

func y(site string) { simhook.Yield(site) }

// ob lets the harness observe shared state right after a mutating atomic operation, and is a
// scheduling point: a goroutine can lose the processor right after it has PUBLISHED a value and
// before the plain writes that follow (an early-published "done" flag is only visible that way).
func ob() { simhook.Observe(); simhook.Yield("atomic.after") }

// Bool wraps atomic.Bool.
type Bool struct{ v ratomic.Bool }

func (x *Bool) Load() bool       { y("atomic.Load"); return x.v.Load() }
func (x *Bool) Store(val bool)   { y("atomic.Store"); x.v.Store(val); ob() }
func (x *Bool) Swap(n bool) bool { y("atomic.Swap"); r := x.v.Swap(n); ob(); return r }
func (x *Bool) CompareAndSwap(o, n bool) bool {
	y("atomic.CAS")
	r := x.v.CompareAndSwap(o, n)
	ob()
	return r
}

// Int32 wraps atomic.Int32.
type Int32 struct{ v ratomic.Int32 }

func (x *Int32) Load() int32        { y("atomic.Load"); return x.v.Load() }
func (x *Int32) Store(val int32)    { y("atomic.Store"); x.v.Store(val); ob() }
func (x *Int32) Swap(n int32) int32 { y("atomic.Swap"); r := x.v.Swap(n); ob(); return r }
func (x *Int32) CompareAndSwap(o, n int32) bool {
	y("atomic.CAS")
	r := x.v.CompareAndSwap(o, n)
	ob()
	return r
}
func (x *Int32) Add(d int32) int32 { y("atomic.Add"); r := x.v.Add(d); ob(); return r }
func (x *Int32) And(m int32) int32 { y("atomic.And"); r := x.v.And(m); ob(); return r }
func (x *Int32) Or(m int32) int32  { y("atomic.Or"); r := x.v.Or(m); ob(); return r }

// Int64 wraps atomic.Int64.
type Int64 struct{ v ratomic.Int64 }

func (x *Int64) Load() int64        { y("atomic.Load"); return x.v.Load() }
func (x *Int64) Store(val int64)    { y("atomic.Store"); x.v.Store(val); ob() }
func (x *Int64) Swap(n int64) int64 { y("atomic.Swap"); r := x.v.Swap(n); ob(); return r }
func (x *Int64) CompareAndSwap(o, n int64) bool {
	y("atomic.CAS")
	r := x.v.CompareAndSwap(o, n)
	ob()
	return r
}
func (x *Int64) Add(d int64) int64 { y("atomic.Add"); r := x.v.Add(d); ob(); return r }
func (x *Int64) And(m int64) int64 { y("atomic.And"); r := x.v.And(m); ob(); return r }
func (x *Int64) Or(m int64) int64  { y("atomic.Or"); r := x.v.Or(m); ob(); return r }

// Uint32 wraps atomic.Uint32.
type Uint32 struct{ v ratomic.Uint32 }

func (x *Uint32) Load() uint32         { y("atomic.Load"); return x.v.Load() }
func (x *Uint32) Store(val uint32)     { y("atomic.Store"); x.v.Store(val); ob() }
func (x *Uint32) Swap(n uint32) uint32 { y("atomic.Swap"); r := x.v.Swap(n); ob(); return r }
func (x *Uint32) CompareAndSwap(o, n uint32) bool {
	y("atomic.CAS")
	r := x.v.CompareAndSwap(o, n)
	ob()
	return r
}
func (x *Uint32) Add(d uint32) uint32 { y("atomic.Add"); r := x.v.Add(d); ob(); return r }
func (x *Uint32) And(m uint32) uint32 { y("atomic.And"); r := x.v.And(m); ob(); return r }
func (x *Uint32) Or(m uint32) uint32  { y("atomic.Or"); r := x.v.Or(m); ob(); return r }

// Uint64 wraps atomic.Uint64.
type Uint64 struct{ v ratomic.Uint64 }

func (x *Uint64) Load() uint64         { y("atomic.Load"); return x.v.Load() }
func (x *Uint64) Store(val uint64)     { y("atomic.Store"); x.v.Store(val); ob() }
func (x *Uint64) Swap(n uint64) uint64 { y("atomic.Swap"); r := x.v.Swap(n); ob(); return r }
func (x *Uint64) CompareAndSwap(o, n uint64) bool {
	y("atomic.CAS")
	r := x.v.CompareAndSwap(o, n)
	ob()
	return r
}
func (x *Uint64) Add(d uint64) uint64 { y("atomic.Add"); r := x.v.Add(d); ob(); return r }
func (x *Uint64) And(m uint64) uint64 { y("atomic.And"); r := x.v.And(m); ob(); return r }
func (x *Uint64) Or(m uint64) uint64  { y("atomic.Or"); r := x.v.Or(m); ob(); return r }

// Uintptr wraps atomic.Uintptr.
type Uintptr struct{ v ratomic.Uintptr }

func (x *Uintptr) Load() uintptr          { y("atomic.Load"); return x.v.Load() }
func (x *Uintptr) Store(val uintptr)      { y("atomic.Store"); x.v.Store(val); ob() }
func (x *Uintptr) Swap(n uintptr) uintptr { y("atomic.Swap"); r := x.v.Swap(n); ob(); return r }
func (x *Uintptr) CompareAndSwap(o, n uintptr) bool {
	y("atomic.CAS")
	r := x.v.CompareAndSwap(o, n)
	ob()
	return r
}
func (x *Uintptr) Add(d uintptr) uintptr { y("atomic.Add"); r := x.v.Add(d); ob(); return r }

// Pointer wraps atomic.Pointer[T].
type Pointer[T any] struct{ v ratomic.Pointer[T] }

func (x *Pointer[T]) Load() *T     { y("atomic.Load"); return x.v.Load() }
func (x *Pointer[T]) Store(val *T) { y("atomic.Store"); x.v.Store(val); ob() }
func (x *Pointer[T]) Swap(n *T) *T { y("atomic.Swap"); r := x.v.Swap(n); ob(); return r }
func (x *Pointer[T]) CompareAndSwap(o, n *T) bool {
	y("atomic.CAS")
	r := x.v.CompareAndSwap(o, n)
	ob()
	return r
}

// Value wraps atomic.Value.
type Value struct{ v ratomic.Value }

func (x *Value) Load() any      { y("atomic.Load"); return x.v.Load() }
func (x *Value) Store(val any)  { y("atomic.Store"); x.v.Store(val); ob() }
func (x *Value) Swap(n any) any { y("atomic.Swap"); r := x.v.Swap(n); ob(); return r }
func (x *Value) CompareAndSwap(o, n any) bool {
	y("atomic.CAS")
	r := x.v.CompareAndSwap(o, n)
	ob()
	return r
}

// Function forms.

func AddInt32(a *int32, d int32) int32         { y("atomic.Add"); return ratomic.AddInt32(a, d) }
func AddInt64(a *int64, d int64) int64         { y("atomic.Add"); return ratomic.AddInt64(a, d) }
func AddUint32(a *uint32, d uint32) uint32     { y("atomic.Add"); return ratomic.AddUint32(a, d) }
func AddUint64(a *uint64, d uint64) uint64     { y("atomic.Add"); return ratomic.AddUint64(a, d) }
func AddUintptr(a *uintptr, d uintptr) uintptr { y("atomic.Add"); return ratomic.AddUintptr(a, d) }

func LoadInt32(a *int32) int32       { y("atomic.Load"); return ratomic.LoadInt32(a) }
func LoadInt64(a *int64) int64       { y("atomic.Load"); return ratomic.LoadInt64(a) }
func LoadUint32(a *uint32) uint32    { y("atomic.Load"); return ratomic.LoadUint32(a) }
func LoadUint64(a *uint64) uint64    { y("atomic.Load"); return ratomic.LoadUint64(a) }
func LoadUintptr(a *uintptr) uintptr { y("atomic.Load"); return ratomic.LoadUintptr(a) }
func LoadPointer(a *unsafe.Pointer) unsafe.Pointer {
	y("atomic.Load")
	return ratomic.LoadPointer(a)
}

func StoreInt32(a *int32, v int32)       { y("atomic.Store"); ratomic.StoreInt32(a, v) }
func StoreInt64(a *int64, v int64)       { y("atomic.Store"); ratomic.StoreInt64(a, v) }
func StoreUint32(a *uint32, v uint32)    { y("atomic.Store"); ratomic.StoreUint32(a, v) }
func StoreUint64(a *uint64, v uint64)    { y("atomic.Store"); ratomic.StoreUint64(a, v) }
func StoreUintptr(a *uintptr, v uintptr) { y("atomic.Store"); ratomic.StoreUintptr(a, v) }
func StorePointer(a *unsafe.Pointer, v unsafe.Pointer) {
	y("atomic.Store")
	ratomic.StorePointer(a, v)
}

func SwapInt32(a *int32, v int32) int32         { y("atomic.Swap"); return ratomic.SwapInt32(a, v) }
func SwapInt64(a *int64, v int64) int64         { y("atomic.Swap"); return ratomic.SwapInt64(a, v) }
func SwapUint32(a *uint32, v uint32) uint32     { y("atomic.Swap"); return ratomic.SwapUint32(a, v) }
func SwapUint64(a *uint64, v uint64) uint64     { y("atomic.Swap"); return ratomic.SwapUint64(a, v) }
func SwapUintptr(a *uintptr, v uintptr) uintptr { y("atomic.Swap"); return ratomic.SwapUintptr(a, v) }

func CompareAndSwapInt32(a *int32, o, n int32) bool {
	y("atomic.CAS")
	return ratomic.CompareAndSwapInt32(a, o, n)
}

func CompareAndSwapInt64(a *int64, o, n int64) bool {
	y("atomic.CAS")
	return ratomic.CompareAndSwapInt64(a, o, n)
}

func CompareAndSwapUint32(a *uint32, o, n uint32) bool {
	y("atomic.CAS")
	return ratomic.CompareAndSwapUint32(a, o, n)
}

func CompareAndSwapUint64(a *uint64, o, n uint64) bool {
	y("atomic.CAS")
	return ratomic.CompareAndSwapUint64(a, o, n)
}

func CompareAndSwapUintptr(a *uintptr, o, n uintptr) bool {
	y("atomic.CAS")
	return ratomic.CompareAndSwapUintptr(a, o, n)
}

func CompareAndSwapPointer(a *unsafe.Pointer, o, n unsafe.Pointer) bool {
	y("atomic.CAS")
	return ratomic.CompareAndSwapPointer(a, o, n)
}
