// Package c07 decides property C07: data messages flow only while Selected (every send entry point
// is refused, counted once and puts nothing on any generation's wire while not Selected; inbound
// data while not Selected is answered with Reject reason 4 and not delivered; the link stays up;
// control traffic is unaffected), and data the peer pipelines directly behind the Select.req /
// Select.rsp that establishes the session is delivered, never rejected.
package c07

import (
	"bytes"
	"context"
	"errors"
	"fmt"
	"time"

	"github.com/arloliu/go-secs/v2/hsms"
	"github.com/arloliu/go-secs/v2/secs2"
	"github.com/arloliu/go-secs/v2/verifsim/core"
	"github.com/arloliu/go-secs/v2/verifsim/refhsms"
	"github.com/arloliu/go-secs/v2/verifsim/rig"
	"github.com/arloliu/go-secs/v2/verifsim/simhook"
	"github.com/arloliu/go-secs/v2/verifsim/simnet"
)

// not-selected situations
const (
	sNeverOpened = iota
	sClosed
	sConnecting
	sConnectedNotSelected
	sDeselected
	sBetweenGenerations
	sSelectRejected
	sClosing    // a graceful Close whose courtesy Separate is stalled by the peer: NotConnected, socket still open
	sClosedIdle // Close issued while NotConnected (listening / dialing) at the instant a TCP connection completes
	nSituations
)

var sitNames = []string{"never-opened", "closed", "connecting", "connected-not-selected", "deselected", "between-generations", "select-rejected", "closing-with-stalled-farewell", "closed-while-a-connection-completes"}

// send entry points
const (
	eSendW = iota
	eSendNoW
	eSendAsync
	eSendSECS2
	eReply
	eForward
	eForwardAsync
	nEntries
)

var entryNames = []string{"SendDataMessage(W)", "SendDataMessage(!W)", "SendDataMessageAsync", "SendSECS2Message", "ReplyDataMessage", "ForwardDataMessage", "ForwardDataMessageAsync"}

type callSpec struct {
	Entry int
	Gap   time.Duration
}

type call struct {
	ID       string
	Entry    int
	Token    string
	TCall    time.Duration
	TRet     time.Duration
	Done     bool
	Err      error
	Reply    bool
	Strict   bool // State() != Selected at call and return and no entry into Selected in between
	DropPre  uint64
	DropPost uint64
}

type inbound struct {
	H      refhsms.Header
	Body   []byte
	SentAt time.Duration
}

type scenario struct {
	Sit     int
	Active  bool
	Equip   bool
	T7Short bool
	Senders [][]callSpec
	Inbound int // data frames the peer sends during the not-selected window (link-up situations)
	// Burst: the peer stops reading for longer than T8 (200 ms) while it sends its data frames, against
	// a short sender queue: every Reject must still come out once it reads again
	Burst     bool
	Queue     int
	Linktests int // Linktest.req the peer sends during the window
	Pipe      int // data frames pipelined behind the select that establishes the session
	PipeW     []bool
	// PipeTwin: the first pipelined frame is a data SECONDARY (even function, no W-bit) that carries the
	// very system bytes of the Select.req it follows: it is data for the handlers, never the answer to
	// (nor swallowed by) the select transaction that is just being closed
	PipeTwin bool
	Cuts      []int
	Gaps      []time.Duration
	Session   uint16
	PostSends int
}

type harness struct {
	w  *core.World
	r  *rig.Rig
	sc scenario

	whens []*when

	calls   []*call
	nDone   int
	started bool // window calls started
	phase   int  // 0 setup, 1 window, 2 establishing, 3 selected/post, 4 finished

	selEntries int
	wasSel     bool

	pendingSel     *refhsms.RxFrame // SUT Select.req not answered yet
	pendingSelC    *refhsms.Conn
	establishing   bool
	estSent        bool
	inb            []inbound // data frames sent while not selected (expect Reject 4)
	lts            []uint32  // linktest sys bytes sent in the window
	pipe           []inbound // pipelined data frames
	pipeConn       *refhsms.Conn
	postDone       int
	postOK         int
	postTokens     map[string]bool
	dropStart      uint64
	dropEnd        uint64
	windowConn     *refhsms.Conn
	barrierSent    bool
	barrierSys     uint32
	windowOpenAt   time.Duration
	closedOnce     bool
	obsLast        hsms.ConnState
	leftSelectedAt time.Duration    // the last instant State() left Selected
	deselTx        *refhsms.TxFrame // the peer's stream that ends with the Deselect.req leaving the session deselected
	queuedAsync    int
	windowEndAt    time.Duration
	closingData    int
	reopened       bool
	finalBarrier   uint32
	finalBarrierC  *refhsms.Conn
}

type when struct {
	cond func() bool
	then func()
	done bool
}

func (h *harness) when(cond func() bool, then func()) {
	h.whens = append(h.whens, &when{cond: cond, then: then})
}

func (h *harness) poll() {
	h.w.TrackRoles([][2]string{{"select@hsms/supervisor.go", "supervisor"}, {"net.Read", "recv"}})
	sel := h.r.C.State() == hsms.SelectedState
	if sel && !h.wasSel {
		h.selEntries++
	}
	h.wasSel = sel
	// the connection carrying the establishing frames died before the session was selected (a short
	// T7 can expire while the select is still crossing the line): establish again on the next one
	if h.establishing && h.estSent && !sel && h.pipeConn != nil && (!h.pipeConn.Alive() || h.pipeConn.L.A.ClosedAt >= 0) {
		h.estSent = false
		h.pipe = nil
		h.pipeConn = nil
		h.w.Probe("establishing_connection_lost_retry")
		if !h.sc.Active {
			h.passiveConnectLoop()
		}
	}
	for i := 0; i < len(h.whens); i++ {
		wn := h.whens[i]
		if !wn.done && wn.cond() {
			wn.done = true
			wn.then()
		}
	}
}

func genScenario(t *core.Tape) scenario {
	sc := scenario{}
	sc.Sit = t.Choose("scn", nSituations)
	sc.Active = t.Choose("scn", 2) == 1
	if sc.Sit == sSelectRejected {
		sc.Active = true
	}
	sc.Equip = t.Choose("scn", 2) == 1
	sc.Session = 0xFFFF
	if t.Bias("scn", 1, 3) {
		sc.Session = uint16(t.Choose("scn", 32768))
	}
	ns := 1 + t.Choose("scn", 3)
	for s := 0; s < ns; s++ {
		var specs []callSpec
		n := 1 + t.Choose("scn", 4)
		for i := 0; i < n; i++ {
			specs = append(specs, callSpec{Entry: t.Choose("scn", nEntries), Gap: time.Duration(t.Choose("scn", 4)) * 30 * time.Millisecond})
		}
		sc.Senders = append(sc.Senders, specs)
	}
	if sc.Sit == sConnectedNotSelected || sc.Sit == sDeselected {
		sc.T7Short = t.Bias("scn", 1, 6)
		if !sc.T7Short {
			sc.Inbound = t.Choose("scn", 4)
			sc.Linktests = t.Choose("scn", 3)
			if t.Bias("scn", 1, 3) {
				sc.Burst = true
				sc.Queue = 1 + t.Choose("scn", 2)
				sc.Inbound = sc.Queue + 2 + t.Choose("scn", 3)
			}
		}
	}
	sc.Pipe = t.Choose("scn", 5)
	for i := 0; i < sc.Pipe; i++ {
		sc.PipeW = append(sc.PipeW, t.Choose("scn", 2) == 1)
	}
	sc.PipeTwin = sc.Pipe > 0 && t.Choose("scn", 3) == 0
	nc := t.Choose("scn", 6)
	for i := 0; i < nc; i++ {
		sc.Cuts = append(sc.Cuts, t.Choose("scn", 1<<16))
		sc.Gaps = append(sc.Gaps, time.Duration(t.Choose("scn", 4))*time.Millisecond)
	}
	sc.PostSends = 1 + t.Choose("scn", 2)

	return sc
}

// Build returns the scenario builder.
func Build(config string) core.BuildFunc {
	return func(w *core.World) *core.Scenario {
		h := &harness{w: w, postTokens: map[string]bool{}}
		h.sc = genScenario(w.T)
		sc := h.sc
		sess := sc.Session
		t7 := 120 * time.Second
		if sc.T7Short {
			t7 = 400 * time.Millisecond
		}
		o := rig.Opts{TraceTraffic: w.T.Choose("trace", 4) == 0, Active: sc.Active, Equip: sc.Equip, T3: 5 * time.Second, T6: 60 * time.Second, T7: t7, SessionID: &sess,
			T5: 4 * time.Second, BackoffInit: 3 * time.Second, BackoffMult: 1, CloseTimeout: 2 * time.Second}
		if sc.Burst {
			o.QueueSize = sc.Queue
			o.T8 = 200 * time.Millisecond
		}
		if sc.Sit == sConnecting && sc.Active {
			o.ConnectTimeout = 3 * time.Second
			o.BackoffInit = 500 * time.Millisecond
		}
		h.r = rig.New(w, o)
		r := h.r
		r.P.AutoSelectRsp = -1
		r.P.AutoLinktest = true
		r.P.AutoDeselectRsp = true
		r.N.ShortRead = func(avail int) int {
			if w.T.Bias("net", 1, 5) {
				return 1 + w.T.Choose("net", avail)
			}

			return avail
		}
		r.P.OnFrame = h.onFrame
		w.AddMonitor(h.poll)
		h.obsLast = hsms.NotConnectedState
		simhook.Observer = func() {
			// exact instants at which State() left Selected (evaluated right after every atomic write)
			st := r.C.State()
			if st != h.obsLast {
				if h.obsLast == hsms.SelectedState {
					h.leftSelectedAt = w.Now()
				}
				h.obsLast = st
			}
		}
		h.setup()

		return &core.Scenario{
			Desc:    h.describe(),
			Horizon: 120 * time.Second,
			Done:    func() bool { return h.phase == 4 && w.Idle() },
			Final:   h.final,
			Cleanup: func() { r.Close() },
			Nontrivial: func() bool {
				return h.started && len(h.calls) > 0 && h.phase == 4
			},
		}
	}
}

func (h *harness) describe() map[string]any {
	sc := h.sc
	var ents [][]string
	for _, s := range sc.Senders {
		var e []string
		for _, c := range s {
			e = append(e, entryNames[c.Entry])
		}
		ents = append(ents, e)
	}

	return map[string]any{"situation": sitNames[sc.Sit], "active": sc.Active, "equip": sc.Equip, "t7short": sc.T7Short, "senders": ents,
		"inbound": sc.Inbound, "burstIntoClosedWindow": sc.Burst, "queue": sc.Queue, "linktests": sc.Linktests, "pipelined": sc.Pipe, "pipeTwin": sc.PipeTwin, "cuts": len(sc.Cuts), "session": sc.Session}
}

func (h *harness) liveConn() *refhsms.Conn {
	c := h.r.P.Last()
	if c != nil && c.Alive() {
		return c
	}

	return nil
}

// onFrame: the peer's scripted behaviour (driver context).
func (h *harness) onFrame(c *refhsms.Conn, f refhsms.RxFrame) {
	if f.H.PType != 0 {
		return
	}
	switch f.H.SType {
	case refhsms.STSelectReq:
		ff := f
		h.pendingSel, h.pendingSelC = &ff, c
		if h.sc.Sit == sSelectRejected && c.Gen == 1 && h.phase == 0 {
			// refuse the first select: the library must drop the link and reconnect
			c.SendFrame(refhsms.Header{Session: f.H.Session, B3: 2, SType: refhsms.STSelectRsp, Sys: f.H.Sys}, nil)
			h.pendingSel = nil
			h.w.Fault("select-rejected")

			return
		}
		if h.establishing && !h.estSent {
			h.sendEstablish()
		}
	case refhsms.STData:
		if f.H.W() {
			if tok, ok := refhsms.ParseASCII(f.Body); ok && h.postTokens[tok] {
				c.SendFrame(refhsms.DataHeader(f.H.Session, f.H.Stream(), f.H.Function()+1, false, f.H.Sys), refhsms.ASCII("re:"+tok))
			}
		}
	}
}

// setup drives the system into the scenario's not-selected situation and opens the call window.
func (h *harness) setup() {
	w, r, sc := h.w, h.r, h.sc
	openWindow := func() {
		if h.phase != 0 {
			return
		}
		h.phase = 1
		h.windowOpenAt = w.Now()
		h.windowConn = h.liveConn()
		h.dropStart = r.C.Metrics().DataMsgDropNotSelectedCount()
		h.startCalls()
		h.peerWindowTraffic()
	}
	// the initial selected session some situations start from
	initialSelect := func(then func()) {
		h.establishing = true
		h.estSent = false
		saved := h.sc.Pipe
		h.sc.Pipe = 0 // the initial session is not the one under the pipelining test
		if !sc.Active {
			h.passiveConnectLoop()
		}
		h.when(func() bool { return r.Selected() && h.estSent }, func() {
			h.sc.Pipe = saved
			h.establishing = false
			h.estSent = false
			w.After(5*time.Millisecond, "initial-selected", then)
		})
	}
	switch sc.Sit {
	case sNeverOpened:
		w.After(time.Millisecond, "window", openWindow)
	case sClosed:
		r.Open(hsms.OpenBackground)
		initialSelect(func() {
			w.Go("closer", func() {
				_ = r.C.Close()
				h.closedOnce = true
			})
			h.when(func() bool { return h.closedOnce }, func() { w.After(time.Millisecond, "window", openWindow) })
		})
	case sClosing:
		r.Open(hsms.OpenBackground)
		initialSelect(func() {
			c := h.liveConn()
			if c == nil {
				w.Fail("HARNESS", "no live connection")

				return
			}
			// the peer stops reading: the courtesy Separate of the graceful Close blocks for its 500 ms
			// bound, during which the state is already NotConnected while the socket is still open
			w.Fault("sndfull")
			c.L.SetCap(8)
			c.L.Stall(false, 0)
			w.Go("closer", func() {
				_ = r.C.Close()
				h.closedOnce = true
			})
			w.After(5*time.Millisecond, "data-during-close", func() {
				for i := 0; i < 1+w.T.Choose("peer", 3); i++ {
					hd := refhsms.DataHeader(sc.Session, byte(1+i), byte(1+2*i), i%2 == 0, 0x53000000+uint32(i))
					c.SendFrame(hd, refhsms.ASCII(fmt.Sprintf("closing%d", i)))
					h.closingData++
					w.Probe("data_sent_during_stalled_close")
				}
			})
			h.when(func() bool { return h.closedOnce }, func() {
				c.L.RST() // the stalled peer end never reads the FIN: it gives the dead socket up itself
				w.After(time.Millisecond, "window", openWindow)
			})
		})
	case sClosedIdle:
		// the connection is closed while it is still NotConnected, exactly when the first TCP connection
		// completes (passive: a peer connects and selects; active: the dial returns and the peer would
		// answer the select): the late connection must not bring a closed connection to life
		lat := time.Duration(2+w.T.Choose("scn", 8)) * time.Millisecond
		off := []time.Duration{-time.Millisecond, 0, 0, time.Millisecond}[w.T.Choose("scn", 4)]
		if sc.Active {
			r.N.DialPlan = func(attempt int, address string) simnet.DialOutcome {
				return simnet.DialOutcome{Latency: lat}
			}
		}
		r.Open(hsms.OpenBackground)
		closeIt := func() {
			w.Go("closer", func() {
				for errors.Is(r.C.Close(), hsms.ErrNotOpen) {
					core.Sleep(time.Millisecond) // Close won the race against Open itself: nothing was open yet
				}
				h.closedOnce = true
			})
		}
		if sc.Active {
			h.establishing = true // the peer answers the select of the late connection, if one is sent
			w.After(lat+off, "close-at-dial-completion", closeIt)
		} else {
			var try func()
			try = func() {
				if r.N.Listening(rig.Addr) {
					w.After(lat+off, "close-at-accept", closeIt)
					w.After(lat, "late-peer", func() {
						if w.T.Choose("scn", 2) == 1 {
							// the accepting goroutine is held with the connection in hand while Close runs
							w.HoldAt["net.Accept.ret"] = time.Duration(1+w.T.Choose("scn", 20)) * time.Millisecond
						}
						if c := r.P.Connect(rig.Addr); c != nil {
							c.SendFrame(refhsms.Header{Session: sc.Session, SType: refhsms.STSelectReq, Sys: r.P.NextSys()}, nil)
						}
					})

					return
				}
				w.After(time.Millisecond, "peer-connect", try)
			}
			w.After(0, "peer-connect", try)
		}
		h.when(func() bool { return h.closedOnce }, func() {
			w.Probe("closed_while_a_connection_completes")
			if n := len(r.P.Conns); n > 0 {
				w.Probe("late_connection_reached_the_peer_side")
			}
			h.establishing = false
			h.pendingSel = nil
			w.After(3*time.Millisecond, "window", openWindow)
		})
	case sConnecting:
		if sc.Active {
			r.N.DialPlan = func(attempt int, address string) simnet.DialOutcome {
				if attempt == 1 {
					w.Fault("dial-blackhole")

					return simnet.DialOutcome{Kind: 2}
				}

				return simnet.DialOutcome{}
			}
		}
		r.Open(hsms.OpenBackground)
		w.After(10*time.Millisecond, "window", openWindow)
	case sConnectedNotSelected:
		r.Open(hsms.OpenBackground)
		if sc.Active {
			h.when(func() bool { return h.pendingSel != nil }, func() { w.After(2*time.Millisecond, "window", openWindow) })
		} else {
			var try func()
			try = func() {
				if r.N.Listening(rig.Addr) {
					if c := r.P.Connect(rig.Addr); c != nil {
						w.After(5*time.Millisecond, "window", openWindow)

						return
					}
				}
				w.After(5*time.Millisecond, "peer-connect", try)
			}
			w.After(0, "peer-connect", try)
		}
	case sDeselected:
		r.Open(hsms.OpenBackground)
		initialSelect(func() {
			c := h.liveConn()
			if c == nil {
				w.Fail("HARNESS", "no live connection to deselect")

				return
			}
			// 0-2 pipelined (Deselect.req, Select.req) pairs in front of the Deselect.req that leaves the
			// session deselected — all in one segment, so the receive path handles them back to back
			var stream []byte
			for k := []int{0, 1, 2, 4, 6}[w.T.Choose("scn", 5)]; k > 0; k-- {
				stream = append(stream, refhsms.Frame(refhsms.Header{Session: sc.Session, SType: refhsms.STDeselectReq, Sys: r.P.NextSys()}, nil)...)
				stream = append(stream, refhsms.Frame(refhsms.Header{Session: sc.Session, SType: refhsms.STSelectReq, Sys: r.P.NextSys()}, nil)...)
				w.Probe("deselect_select_churn_pair")
			}
			sys := r.P.NextSys()
			stream = append(stream, refhsms.Frame(refhsms.Header{Session: sc.Session, SType: refhsms.STDeselectReq, Sys: sys}, nil)...)
			sendDeselect := func() {
				c.SendRaw(stream, refhsms.Header{}, nil, true)
				h.deselTx = c.Tx[len(c.Tx)-1]
			}
			if w.T.Choose("scn", 2) == 1 {
				// (no deselect/select churn in this variant: with the writer stalled and a short queue the
				// receive path itself is back-pressured on its Deselect.rsp, so a re-select of the churn would
				// be processed only after the stall, and data written then is written while Selected)
				stream = refhsms.Frame(refhsms.Header{Session: sc.Session, SType: refhsms.STDeselectReq, Sys: sys}, nil)
				// asynchronous sends accepted while Selected queue up behind a writer the peer has stalled;
				// the Deselect.req overtakes them: when the writer moves again they meet the write-boundary
				// gate and must not be written
				w.Fault("sndfull")
				c.L.SetCap(8)
				c.L.Stall(false, 25*time.Millisecond)
				k := 2 + w.T.Choose("scn", 4)
				w.After(time.Millisecond, "queue-async", func() {
					w.Go("queuer", func() {
						for i := 0; i < k; i++ {
							var err error
							if i%2 == 0 {
								err = r.C.SendDataMessageAsync(context.Background(), 1, 5, false, secs2.A(fmt.Sprintf("queued%d", i)))
							} else {
								m, _ := hsms.NewDataMessage(4, 1, false, sc.Session, [4]byte{0x61, 0, 0, byte(i)}, secs2.A(fmt.Sprintf("queued%d", i)))
								err = r.C.ForwardDataMessageAsync(context.Background(), m)
							}
							if err == nil {
								h.queuedAsync++
							}
						}
					})
				})
				w.After(4*time.Millisecond, "peer-deselect", sendDeselect)
			} else {
				// up to three long preemptions walked through the supervisor's (or the receive path's) next
				// atomic steps while the pipelined frames are handled: a commit lands inside the other side's
				// read-modify-write of the state register
				for n := w.T.Choose("scn", 4); n > 0; n-- {
					role := []string{"supervisor", "recv"}[w.T.Choose("scn", 2)]
					w.HoldNth = append(w.HoldNth, &core.NthHold{Prefix: "atomic", Skip: w.T.Choose("scn", 16), D: 3 * time.Millisecond, Label: role,
						Filter: func(g *simhook.G) bool { return w.Roles[g.ID] == role }})
				}
				sendDeselect()
			}
			h.when(func() bool {
				for _, f := range c.Rx {
					if f.H.SType == refhsms.STDeselectRsp && f.H.Sys == sys {
						return true
					}
				}

				return false
			}, func() { w.After(time.Millisecond, "window", openWindow) })
		})
	case sBetweenGenerations:
		r.Open(hsms.OpenBackground)
		initialSelect(func() {
			c := h.liveConn()
			if c == nil {
				w.Fail("HARNESS", "no live connection to cut")

				return
			}
			if w.T.Choose("scn", 2) == 0 {
				w.Fault("rst")
				c.L.RST()
			} else {
				w.Fault("fin")
				c.L.FIN()
			}
			h.when(func() bool { return r.C.State() == hsms.NotConnectedState }, func() { w.After(time.Millisecond, "window", openWindow) })
		})
	case sSelectRejected:
		r.Open(hsms.OpenBackground)
		h.when(func() bool {
			return len(r.P.Conns) > 0 && !r.P.Conns[0].Alive() && r.C.State() == hsms.NotConnectedState
		}, func() { w.After(time.Millisecond, "window", openWindow) })
	}
}

func (h *harness) passiveConnectLoop() {
	w, r := h.w, h.r
	var try func()
	try = func() {
		if !h.establishing || h.estSent {
			return
		}
		if h.liveConn() == nil && r.N.Listening(rig.Addr) {
			if c := r.P.Connect(rig.Addr); c != nil {
				h.sendEstablish()

				return
			}
		}
		w.After(5*time.Millisecond, "peer-connect", try)
	}
	w.After(0, "peer-connect", try)
}

// sendEstablish transmits the frames that establish the session — Select.rsp(0) answering the
// library's pending Select.req, or a Select.req of the peer's own — with the scenario's pipelined
// data frames directly behind it, as ONE byte stream cut at the scenario's cut points.
func (h *harness) sendEstablish() {
	sc := h.sc
	c := h.liveConn()
	if c == nil {
		return
	}
	var stream []byte
	twinSys, twin := uint32(0), false
	if h.pendingSel != nil && h.pendingSelC == c {
		twinSys, twin = h.pendingSel.H.Sys, sc.PipeTwin
		stream = append(stream, refhsms.Frame(refhsms.Header{Session: h.pendingSel.H.Session, B3: 0, SType: refhsms.STSelectRsp, Sys: h.pendingSel.H.Sys}, nil)...)
		h.pendingSel = nil
		h.w.Probe("established_by_select_rsp")
	} else if sc.Active && !(sc.Sit == sDeselected && h.phase >= 2) {
		// active library end: its Select.req has not arrived yet — wait for it (onFrame calls back)
		return
	} else {
		stream = append(stream, refhsms.Frame(refhsms.Header{Session: sc.Session, SType: refhsms.STSelectReq, Sys: h.r.P.NextSys()}, nil)...)
		h.w.Probe("established_by_select_req")
	}
	h.estSent = true
	h.pipeConn = c
	var pipe []inbound
	for i := 0; i < sc.Pipe; i++ {
		hd := refhsms.DataHeader(sc.Session, byte(1+i), byte(1+2*i), sc.PipeW[i], 0x51000000+uint32(i))
		if i == 0 && twin {
			hd = refhsms.DataHeader(sc.Session, 1, 2, false, twinSys)
			h.w.Probe("pipelined_secondary_with_the_select_transaction_system_bytes")
		}
		body := refhsms.ASCII(fmt.Sprintf("pipe%d", i))
		pipe = append(pipe, inbound{H: hd, Body: body, SentAt: h.w.Now()})
		stream = append(stream, refhsms.Frame(hd, body)...)
	}
	if h.phase >= 2 {
		h.pipe = pipe
	}
	var cuts []int
	for _, k := range sc.Cuts {
		if len(stream) > 1 {
			cuts = append(cuts, 1+k%(len(stream)-1))
		}
	}
	cuts = sortUniq(cuts)
	gaps := []time.Duration{time.Millisecond}
	for i := range cuts {
		g := time.Millisecond
		if i < len(sc.Gaps) {
			g = sc.Gaps[i]
		}
		gaps = append(gaps, g)
	}
	c.SendRawCut(stream, refhsms.Header{}, nil, true, cuts, gaps)
}

func sortUniq(xs []int) []int {
	for i := 1; i < len(xs); i++ {
		for j := i; j > 0 && xs[j] < xs[j-1]; j-- {
			xs[j], xs[j-1] = xs[j-1], xs[j]
		}
	}
	var out []int
	for i, x := range xs {
		if i == 0 || x != xs[i-1] {
			out = append(out, x)
		}
	}

	return out
}

// peerWindowTraffic: while the link is up but not selected the peer sends data (must be rejected
// with reason 4, not delivered) and Linktest.req (must be answered).
func (h *harness) peerWindowTraffic() {
	sc := h.sc
	c := h.windowConn
	if c == nil || (sc.Inbound == 0 && sc.Linktests == 0) {
		return
	}
	n := sc.Inbound + sc.Linktests
	li := 0
	if sc.Burst {
		h.w.Fault("peer-stops-reading")
		c.L.SetCap(8)
		c.L.Stall(false, time.Duration(600+h.w.T.Choose("peer", 3)*400)*time.Millisecond)
	}
	for i := 0; i < n; i++ {
		i := i
		isLT := li < sc.Linktests && (i%2 == 1 || i >= sc.Inbound+li)
		if isLT {
			li++
		}
		h.w.After(time.Duration(5+20*i)*time.Millisecond, "peer-window-traffic", func() {
			if !c.Alive() {
				return
			}
			if isLT {
				sys := h.r.P.NextSys()
				h.lts = append(h.lts, sys)
				c.SendFrame(refhsms.Header{Session: 0xFFFF, SType: refhsms.STLinktestReq, Sys: sys}, nil)

				return
			}
			sess := sc.Session
			if h.w.T.Bias("peer", 1, 3) {
				sess = uint16(h.w.T.Choose("peer", 65536))
			}
			hd := refhsms.DataHeader(sess, byte(1+h.w.T.Choose("peer", 100)), byte(1+h.w.T.Choose("peer", 200)), h.w.T.Choose("peer", 2) == 1, 0x52000000+uint32(i))
			var body []byte
			if h.w.T.Choose("peer", 3) != 0 {
				body = refhsms.ASCII(fmt.Sprintf("ns%d", i))
			}
			h.inb = append(h.inb, inbound{H: hd, Body: body, SentAt: h.w.Now()})
			c.SendFrame(hd, body)
		})
	}
}

func (h *harness) startCalls() {
	h.started = true
	for si, specs := range h.sc.Senders {
		si, specs := si, specs
		h.w.Go(fmt.Sprintf("sender%d", si), func() { h.sender(si, specs) })
	}
	h.when(func() bool { return h.nDone == len(h.sc.Senders) }, func() {
		h.w.After(time.Duration(20*(h.sc.Inbound+h.sc.Linktests)+30)*time.Millisecond, "window-end", h.endWindow)
	})
}

type secs2Msg struct{ m *hsms.DataMessage }

func (s secs2Msg) StreamCode() uint8   { return s.m.Stream() }
func (s secs2Msg) FunctionCode() uint8 { return s.m.Function() }
func (s secs2Msg) WaitBit() bool       { return s.m.WaitBit() }
func (s secs2Msg) Item() secs2.Item    { it, _ := s.m.Item(); return it }

func (h *harness) sender(si int, specs []callSpec) {
	defer func() { h.nDone++ }()
	w := h.w
	C := h.r.C
	single := len(h.sc.Senders) == 1
	for i, sp := range specs {
		if sp.Gap > 0 {
			core.Sleep(sp.Gap)
		}
		c := &call{ID: fmt.Sprintf("g%d-%d", si, i), Entry: sp.Entry}
		c.Token = "tok-" + c.ID
		h.calls = append(h.calls, c)
		ctx := context.Background()
		entries0 := h.selEntries
		pre := C.State()
		c.TCall = w.Now()
		c.DropPre = C.Metrics().DataMsgDropNotSelectedCount()
		w.Logf("call %s %s start state=%v", c.ID, entryNames[sp.Entry], pre)
		var err error
		var rep *hsms.DataMessage
		sys := [4]byte{0x60, 0, byte(si), byte(i)}
		switch sp.Entry {
		case eSendW:
			rep, err = C.SendDataMessage(ctx, 1, 1, true, secs2.A(c.Token))
		case eSendNoW:
			rep, err = C.SendDataMessage(ctx, 1, 3, false, secs2.A(c.Token))
		case eSendAsync:
			err = C.SendDataMessageAsync(ctx, 1, 5, w.T.Choose("app", 2) == 1, secs2.A(c.Token))
		case eSendSECS2:
			m, merr := hsms.NewDataMessage(2, 1, true, 0, [4]byte{}, secs2.A(c.Token))
			if merr != nil {
				w.Fail("HARNESS", "NewDataMessage: %v", merr)

				return
			}
			rep, err = C.SendSECS2Message(ctx, secs2Msg{m})
		case eReply:
			prim, merr := hsms.NewDataMessage(3, 1, true, h.sc.Session, sys, secs2.A("primary"))
			if merr != nil {
				w.Fail("HARNESS", "NewDataMessage: %v", merr)

				return
			}
			err = C.ReplyDataMessage(ctx, prim, secs2.A(c.Token))
		case eForward, eForwardAsync:
			m, merr := hsms.NewDataMessage(4, 1, w.T.Choose("app", 2) == 1, h.sc.Session, sys, secs2.A(c.Token))
			if merr != nil {
				w.Fail("HARNESS", "NewDataMessage: %v", merr)

				return
			}
			if sp.Entry == eForward {
				err = C.ForwardDataMessage(ctx, m)
			} else {
				err = C.ForwardDataMessageAsync(ctx, m)
			}
		}
		c.DropPost = C.Metrics().DataMsgDropNotSelectedCount()
		post := C.State()
		c.TRet = w.Now()
		c.Err, c.Reply, c.Done = err, rep != nil, true
		c.Strict = pre != hsms.SelectedState && post != hsms.SelectedState && h.selEntries == entries0
		if (h.sc.Sit == sClosed || h.sc.Sit == sClosing || h.sc.Sit == sClosedIdle) && h.phase == 1 {
			// between Close returning and the reopen the connection is closed whatever State() claims
			c.Strict = true
		}
		w.Logf("call %s end err=%v strict=%v", c.ID, err, c.Strict)
		if !c.Strict {
			w.Probe("call_overlapped_selected")

			continue
		}
		// ---- per-call oracle (decided on the spot: the call lies inside a not-selected interval)
		want := hsms.ErrNotSelectedState
		if h.sc.Sit == sNeverOpened {
			want = hsms.ErrNotOpen
		}
		if rep != nil {
			w.Fail("GATE", "%s returned a reply while the connection was not Selected (%s)", entryNames[sp.Entry], sitNames[h.sc.Sit])

			return
		}
		if !errors.Is(err, want) {
			w.Fail("GATE", "%s while not Selected (%s, State()=%v) returned %v, want %v", entryNames[sp.Entry], sitNames[h.sc.Sit], pre, err, want)

			return
		}
		if c.TRet != c.TCall {
			w.Fail("GATE", "%s while not Selected blocked for %v before failing", entryNames[sp.Entry], c.TRet-c.TCall)

			return
		}
		if single && h.sc.Sit != sNeverOpened && c.DropPost-c.DropPre != 1 {
			w.Fail("DROP_COUNT", "%s refused while not Selected (%s) moved the not-selected drop counter by %d, want exactly 1", entryNames[sp.Entry], sitNames[h.sc.Sit], c.DropPost-c.DropPre)

			return
		}
	}
}

// endWindow: the not-selected window is over; check the totals, then establish the session.
func (h *harness) endWindow() {
	w, r, sc := h.w, h.r, h.sc
	if h.phase != 1 {
		return
	}
	h.dropEnd = r.C.Metrics().DataMsgDropNotSelectedCount()
	h.windowEndAt = w.Now()
	allStrict := true
	for _, c := range h.calls {
		if !c.Strict {
			allStrict = false
		}
	}
	if allStrict && sc.Sit != sNeverOpened && h.dropEnd-h.dropStart != uint64(len(h.calls)) {
		w.Fail("DROP_COUNT", "%d data sends were refused while not Selected (%s) but the drop counter moved by %d", len(h.calls), sitNames[sc.Sit], h.dropEnd-h.dropStart)

		return
	}
	// a barrier Linktest on the window connection so that "every Reject has been sent" is decidable
	if c := h.windowConn; c != nil && c.Alive() && (len(h.inb) > 0 || len(h.lts) > 0) {
		h.barrierSys = r.P.NextSys()
		h.barrierSent = true
		c.SendFrame(refhsms.Header{Session: 0xFFFF, SType: refhsms.STLinktestReq, Sys: h.barrierSys}, nil)
		h.when(func() bool { return h.hasRx(c, refhsms.STLinktestRsp, h.barrierSys) || !c.Alive() }, h.establish)
		// do not wait forever for a barrier answer that never comes
		w.After(3*time.Second, "barrier-timeout", func() {
			if h.phase == 1 {
				h.establish()
			}
		})

		return
	}
	h.establish()
}

func (h *harness) hasRx(c *refhsms.Conn, stype byte, sys uint32) bool {
	for _, f := range c.Rx {
		if f.H.SType == stype && f.H.Sys == sys && f.H.PType == 0 {
			return true
		}
	}

	return false
}

func (h *harness) establish() {
	w, r, sc := h.w, h.r, h.sc
	if h.phase != 1 {
		return
	}
	h.phase = 2
	h.establishing = true
	h.estSent = false
	switch sc.Sit {
	case sNeverOpened:
		r.Open(hsms.OpenBackground)
	case sClosed, sClosing, sClosedIdle:
		w.Go("reopen", func() {
			if err := r.C.Open(context.Background(), hsms.OpenBackground); err != nil {
				w.Fail("REOPEN", "Open after Close failed: %v", err)
			}
			h.reopened = true
		})
	}
	if sc.Active {
		// a pending Select.req on a live connection is answered now; otherwise onFrame answers the next one
		if h.pendingSel != nil && h.pendingSelC != nil && h.pendingSelC.Alive() {
			h.sendEstablish()
		} else if c := h.liveConn(); c != nil && sc.Sit == sDeselected {
			h.sendEstablish()
		}
	} else {
		if c := h.liveConn(); c != nil {
			h.sendEstablish()
		} else {
			h.passiveConnectLoop()
		}
	}
	h.when(func() bool { return h.estSent && r.Selected() }, func() { w.After(2*time.Millisecond, "post", h.post) })
}

// post: the session is Selected; a few ordinary W-bit round trips must work, then a final barrier.
func (h *harness) post() {
	w, r, sc := h.w, h.r, h.sc
	h.phase = 3
	for i := 0; i < sc.PostSends; i++ {
		tok := fmt.Sprintf("post%d", i)
		h.postTokens[tok] = true
		w.Go("post-"+tok, func() {
			defer func() { h.postDone++ }()
			rep, err := r.C.SendDataMessage(context.Background(), 7, 1, true, secs2.A(tok))
			if err != nil || rep == nil {
				w.Fail("POST", "after the session was established a W-bit send failed: reply=%v err=%v state=%v", rep != nil, err, r.C.State())

				return
			}
			h.postOK++
		})
	}
	h.when(func() bool { return h.postDone == sc.PostSends }, func() {
		c := h.liveConn()
		if c == nil {
			h.phase = 4

			return
		}
		h.finalBarrier = r.P.NextSys()
		h.finalBarrierC = c
		c.SendFrame(refhsms.Header{Session: 0xFFFF, SType: refhsms.STLinktestReq, Sys: h.finalBarrier}, nil)
		h.when(func() bool { return h.hasRx(c, refhsms.STLinktestRsp, h.finalBarrier) || !c.Alive() }, func() { h.phase = 4 })
	})
}

func (h *harness) final(reason string) {
	w, r, sc := h.w, h.r, h.sc
	if h.phase != 4 {
		for _, c := range h.calls {
			if !c.Done {
				w.Fail("BLOCKED", "%s started at %v while not Selected never returned (run ended: %s)", entryNames[c.Entry], c.TCall, reason)

				return
			}
		}
		w.Fail("NO_SESSION", "the scenario did not complete (phase %d, reason %s, state %v, situation %s): the session was never (re-)established or the post round trip never finished",
			h.phase, reason, r.C.State(), sitNames[sc.Sit])

		return
	}
	// ---- 0. deselected by the peer: from the instant the Deselect.req reached the library until the
	// window ended no data frame may have been STARTED on the wire (one whose first byte was already
	// out when the session ended may finish)
	if h.deselTx != nil && h.deselTx.DeliveredAt() >= 0 && h.windowEndAt > 0 && h.leftSelectedAt >= h.deselTx.DeliveredAt() && h.leftSelectedAt < h.windowEndAt {
		// (the instant the library actually committed the deselect: the receive path may have been held
		// up behind the stalled write; frames begun at that very instant are not judged)
		from := h.leftSelectedAt
		c := h.deselTx.C
		for _, f := range c.Rx {
			if f.H.PType != 0 || f.H.SType != refhsms.STData {
				continue
			}
			start := f.EndOff - (14 + len(f.Body))
			ws := c.L.ToPeer().CalledAt(start + 1) // when the library ISSUED the write of the frame's first byte
			if ws > from && ws < h.windowEndAt {
				tok, _ := refhsms.ParseASCII(f.Body)
				w.Fail("DATA_WHILE_NOT_SELECTED", "the library began to write data frame %s (%q) at %v; State() had left Selected at %v and the session was not selected again before %v (%d asynchronous sends had been accepted while Selected and were queued behind a stalled writer)", f.H, tok, ws, from, h.windowEndAt, h.queuedAsync)

				return
			}
		}
		if h.queuedAsync > 0 {
			w.Probe("queued_async_sends_met_the_write_boundary_gate")
		}
	}
	// ---- 1. nothing refused ever reaches any generation's wire (queue-then-flush)
	refused := map[string]*call{}
	for _, c := range h.calls {
		if c.Strict {
			refused[c.Token] = c
		}
	}
	pipeSys := map[uint32]bool{}
	for _, p := range h.pipe {
		pipeSys[p.H.Sys] = true
	}
	var rejects4 []refhsms.RxFrame
	for _, pc := range r.P.Conns {
		for _, f := range pc.Rx {
			if f.H.PType != 0 {
				continue
			}
			switch f.H.SType {
			case refhsms.STData:
				if tok, ok := refhsms.ParseASCII(f.Body); ok {
					if c := refused[tok]; c != nil {
						w.Fail("LEAK", "%s was refused at %v while not Selected (%s) but its message appeared on the wire of connection %d at %v",
							entryNames[c.Entry], c.TCall, sitNames[sc.Sit], pc.Gen, f.At)

						return
					}
				}
			case refhsms.STRejectReq:
				if f.H.B3 == 4 {
					if pipeSys[f.H.Sys] {
						w.Fail("PIPELINE_REJECTED", "data pipelined directly behind the select (sys %#x) was answered with Reject reason 4", f.H.Sys)

						return
					}
					rejects4 = append(rejects4, f)
				}
			}
		}
	}
	// ---- 2. inbound data while not selected: Reject(4) echoing session id and system bytes, FIFO, no delivery
	if h.barrierSent && h.windowConn != nil && h.hasRx(h.windowConn, refhsms.STLinktestRsp, h.barrierSys) {
		if len(rejects4) != len(h.inb) {
			w.Fail("REJECT4", "the peer sent %d data frames while the link was up but not Selected (%s); the library answered with %d Reject(reason 4)", len(h.inb), sitNames[sc.Sit], len(rejects4))

			return
		}
		for i, in := range h.inb {
			g := rejects4[i].H
			want := refhsms.Header{Session: in.H.Session, B2: 0, B3: 4, SType: refhsms.STRejectReq, Sys: in.H.Sys}
			if g != want || len(rejects4[i].Body) != 0 {
				w.Fail("REJECT4", "Reject #%d for data received while not Selected: got %s, want %s", i, g, want)

				return
			}
		}
		for _, sys := range h.lts {
			if !h.hasRx(h.windowConn, refhsms.STLinktestRsp, sys) {
				w.Fail("CONTROL", "Linktest.req sys=%#x sent while not Selected (%s) was not answered", sys, sitNames[sc.Sit])

				return
			}
		}
		if len(h.inb) > 0 {
			w.Probe("inbound_data_rejected_reason4")
		}
	} else if h.barrierSent && h.windowConn != nil && !h.windowConn.Alive() && !sc.T7Short {
		w.Fail("LINK_DROPPED", "the link went down during the not-selected window (%s) although only data/linktest frames were sent on it", sitNames[sc.Sit])

		return
	} else if h.barrierSent && h.windowConn != nil && h.windowConn.Alive() {
		w.Fail("CONTROL", "a Linktest.req sent while not Selected (%s) was not answered within 3 s", sitNames[sc.Sit])

		return
	} else if len(rejects4) > 0 {
		w.Fail("REJECT4", "the library sent %d Reject(reason 4) although the peer sent no data while not Selected", len(rejects4))

		return
	}
	// ---- 3. deliveries: exactly the pipelined frames, in order, to every handler
	for hi := 0; hi < 2; hi++ {
		var got []rig.Delivery
		for _, d := range r.Deliveries {
			if d.Handler == hi {
				got = append(got, d)
			}
		}
		if len(got) != len(h.pipe) {
			msg := "PIPELINE"
			if len(got) > len(h.pipe) {
				msg = "DELIVERED_NOT_SELECTED"
			}
			w.Fail(msg, "handler %d received %d data messages; %d were pipelined behind the select and none of the %d sent while not Selected may be delivered (%s)",
				hi, len(got), len(h.pipe), len(h.inb)+h.closingData, sitNames[sc.Sit])

			return
		}
		for i, d := range got {
			e := h.pipe[i]
			if d.Hdr != e.H.Pack() || !bytes.Equal(d.Body, e.Body) {
				w.Fail("PIPELINE", "handler %d delivery %d: header %x body %x, want %x body %x", hi, i, d.Hdr, d.Body, e.H.Pack(), e.Body)

				return
			}
		}
	}
	if len(h.pipe) > 0 {
		w.Probe("pipelined_data_delivered")
	}
	if h.postOK != sc.PostSends {
		w.Fail("POST", "%d of %d round trips succeeded after the session was established", h.postOK, sc.PostSends)
	}
}
