package c09

import (
	"testing"

	"github.com/arloliu/go-secs/v2/verifsim/core"
)

func TestWorker(t *testing.T) {
	core.WorkerMain(t, core.Property{ID: "C09", Configs: []string{"hsmsss", "hsmsss-stall", "secs1", "secs1-scripted"}, Build: Build})
}
