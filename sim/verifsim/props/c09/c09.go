// Package c09 decides property C09: nothing crosses TCP connection generations — no message
// accepted on one generation is ever transmitted on a later one, no reply received on one
// generation completes a send started on another, sends still waiting when a generation ends
// complete promptly with a definite error, and queued fire-and-forget messages are discarded.
package c09

import (
	"context"
	"errors"
	"fmt"
	"strings"
	"time"

	"github.com/arloliu/go-secs/v2/hsms"
	"github.com/arloliu/go-secs/v2/secs2"
	"github.com/arloliu/go-secs/v2/verifsim/core"
	"github.com/arloliu/go-secs/v2/verifsim/refhsms"
	"github.com/arloliu/go-secs/v2/verifsim/rig"
	"github.com/arloliu/go-secs/v2/verifsim/simhook"
	"github.com/arloliu/go-secs/v2/verifsim/simnet"
)

// send kinds
const (
	kW = iota
	kNoW
	kAsync
	kForward
	kForwardAsync
	kReply
	nKinds
)

var kindNames = []string{"SendDataMessage(W)", "SendDataMessage(!W)", "SendDataMessageAsync", "ForwardDataMessage", "ForwardDataMessageAsync", "ReplyDataMessage"}

// how a generation ends
const (
	eFIN = iota
	eRST
	eWedgeRST     // writes stop draining, then RST
	eWedgeTimeout // writes stop draining until the library's write timeout fires
	eSilence      // inbound stall: the linktest must drop the link
	eCloseOpen    // application Close, then Open
	eWedgeClose   // writes stop draining, then application Close (its courtesy Separate meets the closed window), then Open
	nEnds
)

var endNames = []string{"fin", "rst", "wedge+rst", "wedge+write-timeout", "silence+linktest", "close+open", "wedge+close+open"}

type genPlan struct {
	End      int
	After    time.Duration // after the generation is selected
	WedgeFor time.Duration
	Stall    time.Duration // gstall applied to senders caught in a write when the generation ends
	Replay   bool          // the NEXT generation's peer replays replies for this generation's open transactions
}

type scenario struct {
	Active      bool
	Equip       bool
	T3          time.Duration
	T6          time.Duration
	Backoff     time.Duration
	WriteTO     time.Duration
	Linktest    time.Duration
	Queue       int
	Plans       []genPlan
	Senders     int
	PerSend     int
	ReplyDelays []time.Duration
}

type call struct {
	ID      string
	Kind    int
	Token   string
	Sys     uint32
	GenCall int
	GenRet  int
	TCall   time.Duration
	TRet    time.Duration
	Done    bool
	Err     error
	Reply   string // reply token ("" none)
	Stalled bool
}

type harness struct {
	w  *core.World
	r  *rig.Rig
	sc scenario

	calls          map[string]*call
	order          []*call
	nDone          int
	stop           bool
	gens           []*refhsms.Conn
	selAt          map[int]time.Duration
	ended          map[int]bool
	replayed       map[uint32]string         // sys -> stale token sent on a later generation
	open           map[int][]refhsms.RxFrame // W primaries seen per generation
	stallFor       time.Duration
	closing        bool
	finished       bool
	lastGenPlanned int
	whens          []*when
	appCloseAt     map[int]time.Duration
	randomStalls   bool
	withholdGen    int
	stalls         [][2]time.Duration
	maxStall       time.Duration
	inCall         map[string]bool
}

type when struct {
	cond func() bool
	then func()
	done bool
}

func (h *harness) when(cond func() bool, then func()) {
	h.whens = append(h.whens, &when{cond: cond, then: then})
}

func (h *harness) poll() {
	h.w.TrackRoles([][2]string{{"select@hsms/connection_send.go", "asender"}})
	for i := 0; i < len(h.whens); i++ {
		wn := h.whens[i]
		if !wn.done && wn.cond() {
			wn.done = true
			wn.then()
		}
	}
	if h.randomStalls {
		// gstall at an arbitrary point INSIDE a send call: the sender is withheld (a descheduled
		// thread) while everything else — timers, teardown, reconnect, select — proceeds
		for _, g := range h.w.S.Parked() {
			if g.App && g.StallUntil == 0 && h.inCall[g.Name] && boundSite(g.Site) && h.w.T.Bias("stall", 1, 25) {
				d := []time.Duration{30 * time.Millisecond, 200 * time.Millisecond, time.Second, 3 * time.Second}[h.w.T.Choose("stall", 4)]
				h.w.StallG(g, d)
				h.markStalled(g.Name)
				h.w.Probe("gstall_inside_call@" + siteClass(g.Site))
			}
		}
	}
	if h.stallFor > 0 {
		for _, g := range h.w.S.Parked() {
			if g.App && g.StallUntil == 0 && (strings.HasPrefix(g.Site, "net.Write") || strings.HasPrefix(g.Site, "mu.")) {
				h.w.StallG(g, h.stallFor)
				h.markStalled(g.Name)
			}
		}
	}
}

// markStalled: a withheld sender may hold the generation's write lock, so every call in progress at
// that moment can be delayed by the injected stall; none of them is held to the promptness bound.
// boundSite: hook sites a send call reaches only AFTER it has bound itself to a generation (the
// write lock, the socket lock, the write itself, the reply/queue wait). A
// stall before that point (system-bytes generation, loading the current generation) would merely
// postpone the binding, so the call would legitimately belong to a later generation.
func boundSite(site string) bool {
	for _, p := range []string{"mu.", "rw.", "net.Write", "select"} {
		if strings.HasPrefix(site, p) {
			return true
		}
	}

	return false
}

func siteClass(site string) string {
	if i := strings.IndexAny(site, "@"); i > 0 {
		return site[:i]
	}

	return site
}

func (h *harness) markStalled(name string) {
	h.stalls = append(h.stalls, [2]time.Duration{h.w.Now(), -1})
	for _, c := range h.order {
		if !c.Done {
			c.Stalled = true
		}
	}
}

// overlapsStall: the call ran while some sender was being withheld (it may have queued behind the
// write lock that sender holds).
func (h *harness) overlapsStall(c *call) bool {
	if c.Stalled {
		return true
	}
	for _, st := range h.stalls {
		if c.TRet >= st[0] && c.TCall <= st[0]+h.maxStall {
			return true
		}
	}

	return false
}

func genScenario(t *core.Tape, stalls bool) scenario {
	sc := scenario{}
	sc.Active = t.Choose("scn", 2) == 1
	sc.Equip = t.Choose("scn", 2) == 1
	sc.T3 = []time.Duration{2 * time.Second, 500 * time.Millisecond}[t.Choose("scn", 2)]
	sc.T6 = []time.Duration{time.Second, 300 * time.Millisecond}[t.Choose("scn", 2)]
	sc.Backoff = []time.Duration{50 * time.Millisecond, time.Millisecond, 1, 300 * time.Millisecond}[t.Choose("scn", 4)]
	sc.WriteTO = []time.Duration{400 * time.Millisecond, 30 * time.Second}[t.Choose("scn", 2)]
	sc.Linktest = []time.Duration{300 * time.Millisecond, 0}[t.Choose("scn", 2)]
	sc.Queue = []int{64, 1, 4}[t.Choose("scn", 3)]
	n := 1 + t.Choose("scn", 4)
	for i := 0; i < n; i++ {
		p := genPlan{}
		p.End = t.Weighted("scn", 3, 3, 3, 1, 1, 2, 2)
		if p.End == eSilence && sc.Linktest == 0 {
			p.End = eRST
		}
		if p.End == eWedgeTimeout && sc.WriteTO > time.Second {
			p.End = eWedgeRST
		}
		p.After = time.Duration(20+t.Choose("scn", 60)*10) * time.Millisecond
		p.WedgeFor = time.Duration(50+t.Choose("scn", 30)*10) * time.Millisecond
		if stalls {
			p.Stall = []time.Duration{0, 100 * time.Millisecond, time.Second, 3 * time.Second}[t.Choose("scn", 4)]
		}
		p.Replay = t.Choose("scn", 3) != 0
		sc.Plans = append(sc.Plans, p)
	}
	sc.Senders = 1 + t.Choose("scn", 4)
	sc.PerSend = 6 + t.Choose("scn", 20)
	for i := 0; i < 8; i++ {
		sc.ReplyDelays = append(sc.ReplyDelays, []time.Duration{0, 5 * time.Millisecond, 50 * time.Millisecond, 300 * time.Millisecond, -1}[t.Weighted("scn", 4, 2, 2, 2, 2)])
	}

	return sc
}

var noSuppress = false

// Build returns the scenario builder ("hsmsss": faults only; "hsmsss-stall": plus gstall).
func Build(config string) core.BuildFunc {
	if config == "secs1" {
		return buildSECS1()
	}
	if config == "secs1-scripted" {
		return buildSECS1Scripted()
	}

	return func(w *core.World) *core.Scenario {
		h := &harness{w: w, calls: map[string]*call{}, selAt: map[int]time.Duration{}, ended: map[int]bool{}, replayed: map[uint32]string{},
			open: map[int][]refhsms.RxFrame{}, appCloseAt: map[int]time.Duration{}, inCall: map[string]bool{}, randomStalls: config == "hsmsss-stall", maxStall: 3 * time.Second}
		h.sc = genScenario(w.T, config == "hsmsss-stall")
		sc := h.sc
		wt := sc.WriteTO
		h.r = rig.New(w, rig.Opts{Active: sc.Active, Equip: sc.Equip, T3: sc.T3, T6: sc.T6, T7: 2 * time.Second, T5: time.Second, T8: time.Second,
			BackoffInit: sc.Backoff, BackoffMult: 2, CloseTimeout: 2 * time.Second, WriteTimeout: &wt, Linktest: sc.Linktest, LinkThreshold: 1,
			QueueSize: sc.Queue, AsyncErrHandler: true, Suppress: &noSuppress})
		r := h.r
		// the application's async-send error callback may be slow: it runs on the library's sender
		// goroutine and must hold up nobody else (no send waiting on a generation that has ended)
		r.AsyncErrDelay = []time.Duration{0, 0, 300 * time.Millisecond, 2 * time.Second}[w.T.Choose("scn", 4)]
		r.P.AutoSelectRsp = 0
		r.P.AutoLinktest = true
		r.P.OnOpen = func(c *refhsms.Conn) {
			h.gens = append(h.gens, c)
			if !sc.Active {
				c.SelectReq()
			}
		}
		r.P.OnFrame = h.onFrame
		r.OnDeliver = func(m *hsms.DataMessage, ep hsms.SECS2Endpoint) {}
		w.AddMonitor(h.poll)
		r.Open(hsms.OpenBackground)
		if !sc.Active {
			h.peerDialLoop()
		}
		for i := 0; i < sc.Senders; i++ {
			i := i
			w.Go(fmt.Sprintf("s%d", i), func() { h.sender(i) })
		}
		h.planGen(0, 0)

		return &core.Scenario{
			Desc:    h.describe(),
			Horizon: 120 * time.Second,
			Done:    func() bool { return h.finished && w.Idle() },
			Final:   h.final,
			Cleanup: func() { h.stop = true; r.Close() },
			Nontrivial: func() bool {
				return len(h.gens) >= 2 && len(h.order) > 0
			},
		}
	}
}

func (h *harness) describe() map[string]any {
	sc := h.sc
	var plans []string
	for _, p := range sc.Plans {
		plans = append(plans, fmt.Sprintf("%s after %v (wedge %v, stall %v, replay %v)", endNames[p.End], p.After, p.WedgeFor, p.Stall, p.Replay))
	}

	return map[string]any{"active": sc.Active, "equip": sc.Equip, "T3": sc.T3.String(), "T6": sc.T6.String(), "backoff": sc.Backoff.String(), "writeTimeout": sc.WriteTO.String(),
		"linktest": sc.Linktest.String(), "queue": sc.Queue, "generations": plans, "senders": sc.Senders, "sendsEach": sc.PerSend}
}

func (h *harness) peerDialLoop() {
	w, r := h.w, h.r
	var tick func()
	tick = func() {
		if h.finished || h.stop {
			return
		}
		last := r.P.Last()
		if (last == nil || h.live() == nil) && r.N.Listening(rig.Addr) {
			r.P.Connect(rig.Addr)
		}
		w.After(time.Duration(2+w.T.Choose("peer", 10))*time.Millisecond, "peer-dial-tick", tick)
	}
	w.After(0, "peer-dial-tick", tick)
}

func (h *harness) genNow() int { return len(h.gens) }

// live reports whether the newest connection is usable from the peer's point of view and has not
// been closed by the library end (a FIN can be stuck behind a stalled pipe).
func (h *harness) live() *refhsms.Conn {
	if len(h.gens) == 0 {
		return nil
	}
	c := h.gens[len(h.gens)-1]
	if c.Alive() && c.L.A != nil && c.L.A.ClosedAt < 0 {
		return c
	}

	return nil
}

// planGen arms plan #k (0-based) on the first generation newer than `after` that gets selected.
func (h *harness) planGen(k, after int) {
	w, r := h.w, h.r
	h.when(func() bool { return len(h.gens) > after && h.live() != nil && r.Selected() }, func() {
		n := len(h.gens)
		h.selAt[n] = w.Now()
		c := h.gens[n-1]
		// stale replies of earlier generations' open transactions, replayed on this one
		if k >= 1 && h.sc.Plans[k-1].Replay {
			for g := 1; g < n; g++ {
				for _, f := range h.open[g] {
					if _, done := h.replayed[f.H.Sys]; done {
						continue
					}
					tok := fmt.Sprintf("stale:g%d:%d", n, f.H.Sys)
					h.replayed[f.H.Sys] = tok
					c.SendFrame(refhsms.DataHeader(f.H.Session, f.H.Stream(), f.H.Function()+1, false, f.H.Sys), refhsms.ASCII(tok))
					w.Probe("stale_reply_replayed")
				}
			}
		}
		if k >= len(h.sc.Plans) {
			// last generation: let the senders finish, then end the run
			h.when(func() bool { return h.nDone == h.sc.Senders }, func() { w.After(50*time.Millisecond, "finish", func() { h.finished = true }) })
			w.After(20*time.Second, "finish-timeout", func() { h.stop = true })

			return
		}
		p := h.sc.Plans[k]
		if h.randomStalls && p.Replay && p.After > 40*time.Millisecond && w.T.Choose("stall", 2) == 0 {
			// shortly before the generation ends the next sender to reach its reply wait is withheld THERE
			// (after its primary is out, before it starts waiting) until well into the next generation:
			// when it resumes, the end of its generation and whatever the next one's peer replayed are
			// both already there
			w.After(p.After-time.Duration(10+w.T.Choose("stall", 3)*10)*time.Millisecond, "arm-hold", func() {
				h.withholdGen = n // from now on this generation's peer answers no primary: they stay open and are replayed
				w.HoldApp = func(g *simhook.G) bool { return g.App && h.inCall[g.Name] }
				w.OnHold = func(g *simhook.G, site string, d time.Duration) {
					h.markStalled(g.Name)
					w.Probe("sender_held_before_its_reply_wait_across_generation_end")
				}
				w.HoldAt["select@hsms/connection_send.go*"] = []time.Duration{300 * time.Millisecond, time.Second, 2 * time.Second}[w.T.Choose("stall", 3)]
			})
		}
		w.After(p.After, "gen-end", func() { h.endGen(k, n, c, p) })
	})
}

func (h *harness) endGen(k, n int, c *refhsms.Conn, p genPlan) {
	w, r := h.w, h.r
	if !c.Alive() || c.L.A.ClosedAt >= 0 {
		h.planGen(k+1, n)

		return
	}
	h.ended[n] = true
	armStall := func() {
		if p.Stall > 0 {
			h.stallFor = p.Stall
			w.After(3*time.Millisecond, "gstall-window-end", func() { h.stallFor = 0 })
		}
	}
	switch p.End {
	case eFIN:
		w.Fault("fin")
		armStall()
		c.L.FIN()
	case eRST:
		w.Fault("rst")
		armStall()
		c.L.RST()
	case eWedgeRST:
		w.Fault("sndfull")
		c.L.SetCap(40)
		c.L.Stall(false, 0)
		w.After(p.WedgeFor, "wedge-rst", func() {
			if c.Alive() {
				w.Fault("rst")
				armStall()
				c.L.RST()
			}
		})
	case eWedgeTimeout:
		w.Fault("sndfull")
		c.L.SetCap(40)
		c.L.Stall(false, 0)
		if k := w.T.Choose("stall", 12); k < 10 {
			// the writer whose frame has just filled the send buffer is withheld for a few milliseconds
			// right after it releases a lock (k < 8), or some writer after its k-th unlock (k = 8, 9):
			// whatever it still does to the socket after that (a late deadline clear) lands on the next
			// writer's blocked write — which the write timeout must still end
			full := func() bool { return 40-c.L.ToPeer().InFlight()-c.L.ToPeer().Unread() < 14 }
			nh := &core.NthHold{Prefix: "mu.Unlock", D: 5 * time.Millisecond, Label: "writer-after-unlock",
				Filter: func(g *simhook.G) bool { return (g.App || w.Roles[g.ID] == "asender") && full() },
				OnFire: func(g *simhook.G) { h.markStalled(g.Name) }}
			if k >= 8 {
				nh.Skip = 3 * (k - 8)
				nh.Filter = func(g *simhook.G) bool { return g.App || w.Roles[g.ID] == "asender" }
			}
			w.HoldNth = append(w.HoldNth, nh)
		}
		// make sure the library has something to write: a burst of Linktest.req whose answers fill
		// the stalled pipe, so a write blocks and the write timeout fires
		for i := 0; i < 6; i++ {
			c.SendFrame(refhsms.Header{Session: 0xFFFF, SType: refhsms.STLinktestReq, Sys: h.r.P.NextSys()}, nil)
		}
	case eSilence:
		w.Fault("stall-inbound")
		c.L.Stall(true, 0)
	case eWedgeClose:
		w.Fault("sndfull")
		c.L.SetCap(40)
		c.L.Stall(false, 0)
		w.After(p.WedgeFor, "wedge-close", func() {
			w.Fault("app-close")
			w.Go("closer", func() {
				h.closing = true
				h.appCloseAt[n] = w.Now()
				_ = r.C.Close()
				c.L.RST() // the stalled peer end gives the dead socket up
				core.Sleep(time.Duration(w.T.Choose("app", 20)) * 10 * time.Millisecond)
				h.closing = false
				if err := r.C.Open(context.Background(), hsms.OpenBackground); err != nil {
					w.Fail("REOPEN", "Open after Close: %v", err)
				}
			})
		})
	case eCloseOpen:
		w.Fault("app-close")
		w.Go("closer", func() {
			h.closing = true
			h.appCloseAt[n] = w.Now()
			_ = r.C.Close()
			core.Sleep(time.Duration(w.T.Choose("app", 20)) * 10 * time.Millisecond)
			h.closing = false
			if err := r.C.Open(context.Background(), hsms.OpenBackground); err != nil {
				w.Fail("REOPEN", "Open after Close: %v", err)
			}
		})
	}
	h.planGen(k+1, n)
}

func (h *harness) onFrame(c *refhsms.Conn, f refhsms.RxFrame) {
	if f.H.PType != 0 || f.H.SType != refhsms.STData || !f.H.W() {
		return
	}
	h.open[c.Gen] = append(h.open[c.Gen], f)
	tok, _ := refhsms.ParseASCII(f.Body)
	d := h.sc.ReplyDelays[int(f.H.Sys)%len(h.sc.ReplyDelays)]
	if d < 0 || c.Gen == h.withholdGen {
		return
	}
	reply := func() {
		if c.Alive() {
			c.SendFrame(refhsms.DataHeader(f.H.Session, f.H.Stream(), f.H.Function()+1, false, f.H.Sys), refhsms.ASCII(fmt.Sprintf("re:g%d:%s", c.Gen, tok)))
		}
	}
	if d == 0 {
		reply()
	} else {
		h.w.After(d, "peer-reply", reply)
	}
}

func (h *harness) sender(si int) {
	defer func() { h.nDone++ }()
	w := h.w
	C := h.r.C
	for i := 0; i < h.sc.PerSend && !h.stop && !h.finished; i++ {
		core.Sleep(time.Duration(5+w.T.Choose("app", 60)) * time.Millisecond)
		if h.stop || h.finished {
			return
		}
		kind := w.T.Weighted("app", 5, 2, 3, 1, 1, 1)
		c := &call{ID: fmt.Sprintf("s%d-%d", si, i), Kind: kind}
		c.Token = "t:" + c.ID
		h.calls[c.Token] = c
		h.order = append(h.order, c)
		c.GenCall = h.genNow()
		c.TCall = w.Now()
		ctx := context.Background()
		var cancel context.CancelFunc
		if w.T.Choose("app", 4) == 0 {
			ctx, cancel = context.WithTimeout(ctx, time.Duration(100+w.T.Choose("app", 900))*time.Millisecond)
		}
		w.Logf("call %s %s gen=%d", c.ID, kindNames[kind], c.GenCall)
		h.inCall[fmt.Sprintf("s%d", si)] = true
		sys := [4]byte{0x61, byte(si), byte(i >> 8), byte(i)}
		var err error
		var rep *hsms.DataMessage
		switch kind {
		case kW:
			rep, err = C.SendDataMessage(ctx, 1, 1, true, secs2.A(c.Token))
		case kNoW:
			_, err = C.SendDataMessage(ctx, 1, 3, false, secs2.A(c.Token))
		case kAsync:
			err = C.SendDataMessageAsync(ctx, 1, 5, false, secs2.A(c.Token))
		case kForward, kForwardAsync:
			m, merr := hsms.NewDataMessage(4, 1, false, 0xFFFF, sys, secs2.A(c.Token))
			if merr != nil {
				w.Fail("HARNESS", "NewDataMessage: %v", merr)

				return
			}
			if kind == kForward {
				err = C.ForwardDataMessage(ctx, m)
			} else {
				err = C.ForwardDataMessageAsync(ctx, m)
			}
		case kReply:
			prim, merr := hsms.NewDataMessage(3, 1, true, 0xFFFF, sys, secs2.A("p"))
			if merr != nil {
				w.Fail("HARNESS", "NewDataMessage: %v", merr)

				return
			}
			err = C.ReplyDataMessage(ctx, prim, secs2.A(c.Token))
		}
		if cancel != nil {
			cancel()
		}
		h.inCall[fmt.Sprintf("s%d", si)] = false
		c.TRet = w.Now()
		c.GenRet = h.genNow()
		c.Err = err
		if rep != nil {
			if it, ierr := rep.Item(); ierr == nil && it != nil {
				if s, serr := it.ToASCII(); serr == nil {
					c.Reply = s
				}
			}
			if c.Reply == "" {
				c.Reply = "?"
			}
		}
		c.Done = true
		w.Logf("call %s end gen=%d err=%v reply=%q", c.ID, c.GenRet, err, c.Reply)
		if err == nil && kind == kW && rep == nil {
			w.Fail("NIL_NIL", "%s returned (nil, nil)", kindNames[kind])

			return
		}
	}
}

// closedAt returns when the library closed its socket of generation n (1-based; -1 = never).
func (h *harness) closedAt(n int) time.Duration {
	if n < 1 || n > len(h.gens) {
		return -1
	}

	return h.gens[n-1].L.A.ClosedAt
}

func (h *harness) final(reason string) {
	w := h.w
	for _, c := range h.order {
		if !c.Done {
			w.Fail("BLOCKED", "%s (%s) started at %v on generation %d never returned (run ended: %s at %v)", kindNames[c.Kind], c.ID, c.TCall, c.GenCall, reason, w.Now())

			return
		}
	}
	if !h.finished {
		w.Fail("NO_RECOVERY", "the run did not reach its last generation (reason %s, %d generations, state %v)", reason, len(h.gens), h.r.C.State())

		return
	}
	// ---- (1) no frame on a generation outside [generation at call, generation at return]
	seen := map[string]int{}
	for gi, pc := range h.gens {
		n := gi + 1
		for _, f := range pc.Rx {
			if f.H.PType != 0 || f.H.SType != refhsms.STData {
				continue
			}
			tok, ok := refhsms.ParseASCII(f.Body)
			if !ok {
				continue
			}
			c := h.calls[tok]
			if c == nil {
				continue // S9F9 etc.
			}
			if prev, dup := seen[tok]; dup {
				w.Fail("DUPLICATE", "the message of %s (%s) was transmitted twice (generations %d and %d)", c.ID, kindNames[c.Kind], prev, n)

				return
			}
			seen[tok] = n
			// A call is bound to the generation whose socket was open when it began: the successor is
			// published only after that socket has been closed and the generation fully torn down. Only a
			// call that began after (or exactly when) the library closed generation GenCall's socket can
			// have bound to a later one.
			lo, hi := c.GenCall, c.GenCall
			if tc := h.closedAt(c.GenCall); c.GenCall == 0 || (tc >= 0 && tc <= c.TCall) {
				hi = c.GenRet
			}
			if n < lo || n > hi {
				w.Fail("STALE_FRAME", "%s (%s) was called at %v during generation %d (socket closed by the library at %v) and returned at %v (generation %d, err=%v), but its message was transmitted on generation %d at %v",
					kindNames[c.Kind], c.ID, c.TCall, c.GenCall, h.closedAt(c.GenCall), c.TRet, c.GenRet, c.Err, n, f.At)

				return
			}
			if n != c.GenCall {
				w.Probe("frame_on_overlapping_generation")
			}
		}
		if len(pc.PartialBytes()) > 0 && pc.Garbage {
			w.Fail("TORN", "generation %d received bytes that do not parse as frames", n)

			return
		}
	}
	// ---- (2) replies: only the reply the peer sent for this primary on the generation that carried it
	for _, c := range h.order {
		if c.Reply == "" {
			continue
		}
		if strings.HasPrefix(c.Reply, "stale:") {
			w.Fail("STALE_REPLY", "%s (%s, generation %d) returned a reply that the peer sent on a LATER generation for the same system bytes: %q", kindNames[c.Kind], c.ID, c.GenCall, c.Reply)

			return
		}
		gen, ok := seen[c.Token]
		want := fmt.Sprintf("re:g%d:%s", gen, c.Token)
		if !ok || c.Reply != want {
			w.Fail("WRONG_REPLY", "%s (%s) returned reply %q; its primary was seen on generation %d (want %q)", kindNames[c.Kind], c.ID, c.Reply, gen, want)

			return
		}
	}
	// ---- (3a) a generation ended by the application's Close: the teardown starts within the bound of
	// the courtesy Separate (a 500 ms write bound when the peer's window is closed), whatever the
	// write timeout — every send still waiting is released then, not a write timeout later
	for n, at := range h.appCloseAt {
		tc := h.closedAt(n)
		if tc < 0 {
			w.Fail("LATE", "the application called Close at %v on generation %d; its socket was never closed", at, n)

			return
		}
		if tc > at+510*time.Millisecond {
			w.Fail("LATE", "the application called Close at %v on generation %d (peer window closed); the generation's socket was closed, and the sends still waiting released, only at %v — the courtesy Separate is bounded by 500 ms (write timeout %v)", at, n, tc, h.sc.WriteTO)

			return
		}
		if tc > at+100*time.Millisecond {
			w.Probe("close_spent_the_farewell_bound")
		}
	}
	// ---- (3) promptness and error class once the generation's socket is closed
	for _, c := range h.order {
		tc := h.closedAt(c.GenCall)
		if tc < 0 || tc < c.TCall || h.overlapsStall(c) {
			continue
		}
		if c.TRet > tc+time.Millisecond {
			// the call outlived its generation's socket
			if c.GenRet > c.GenCall && c.Err == nil && c.Kind != kW {
				continue // accepted by the next generation (overlap), decided in (1)
			}
			w.Fail("LATE", "%s (%s) was pending on generation %d whose socket the library closed at %v, but it returned only at %v (err=%v)", kindNames[c.Kind], c.ID, c.GenCall, tc, c.TRet, c.Err)

			return
		}
		if c.TRet >= tc && c.TCall < tc {
			w.Probe("call_completed_by_generation_end")
			if c.Err == nil && c.Kind == kW && seen[c.Token] == 0 {
				w.Fail("PHANTOM", "%s (%s) returned success although its primary never reached the peer", kindNames[c.Kind], c.ID)

				return
			}
		}
	}
	// ---- error classes
	for _, c := range h.order {
		if c.Err == nil {
			continue
		}
		var rj *hsms.RejectError
		var ne interface{ Timeout() bool }
		switch {
		case errors.Is(c.Err, hsms.ErrConnClosed), errors.Is(c.Err, hsms.ErrNotSelectedState), errors.Is(c.Err, hsms.ErrT3Timeout),
			errors.Is(c.Err, context.Canceled), errors.Is(c.Err, context.DeadlineExceeded), errors.As(c.Err, &rj), errors.As(c.Err, &ne):
		default:
			if !strings.Contains(c.Err.Error(), "closed") && !strings.Contains(c.Err.Error(), "reset") && !strings.Contains(c.Err.Error(), "pipe") {
				w.Fail("ERROR_CLASS", "%s (%s) failed with an error outside the documented set: %v", kindNames[c.Kind], c.ID, c.Err)

				return
			}
		}
	}
}

var _ = simnet.New
