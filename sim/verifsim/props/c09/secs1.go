package c09

// SECS-I leg of C09: two real secs1 endpoints on the simulated line. One of them (the "subject") has
// its generations ended by application Close+Open and by resets of the line, while 1-3 of its
// application goroutines keep sending and the data handlers of either side may block. The same
// generation-tag oracle as the HSMS-SS leg applies: a message is only ever transmitted on the
// generation its call was bound to, and once the subject has closed a generation's socket every
// call pending on it returns at once with a definite error.

import (
	"bytes"
	"context"
	"errors"
	"fmt"
	"strings"
	"time"

	"github.com/arloliu/go-secs/v2/hsms"
	"github.com/arloliu/go-secs/v2/secs1"
	"github.com/arloliu/go-secs/v2/secs2"
	"github.com/arloliu/go-secs/v2/verifsim/core"
	"github.com/arloliu/go-secs/v2/verifsim/rig"
	"github.com/arloliu/go-secs/v2/verifsim/simhook"
	"github.com/arloliu/go-secs/v2/verifsim/simnet"
)

type s1Scenario struct {
	SubjectEquip  bool
	SubjectActive bool
	Device        uint16
	Senders       int
	PerSender     int
	PeerSends     int
	HandlerDelay  [2]time.Duration // blocking time of the data handlers: [subject, other]
	Ends          []s1End
	Sizes         []int
}

type s1End struct {
	After time.Duration
	Kind  int // 0 application Close then Open, 1 line reset
}

type s1Call struct {
	Tok     string
	W       bool
	GenCall int
	GenRet  int
	TCall   time.Duration
	TRet    time.Duration
	Err     error
	Reply   string
	Done    bool
}

type s1Harness struct {
	w         *core.World
	sc        s1Scenario
	n         *simnet.Net
	sub       *rig.Rig1
	oth       *rig.Rig1
	subActive bool

	calls    []*s1Call
	byTok    map[string]*s1Call
	wire     map[string][]int // token -> subject generations on which its first block was transmitted
	genLink  []*simnet.Link   // subject generation (1-based index-1) -> the link it adopted
	lastSt   hsms.ConnState
	nDone    int
	stop     bool
	finished bool
	endIdx   int
	closing  bool
}

func genS1(t *core.Tape) s1Scenario {
	sc := s1Scenario{}
	sc.SubjectEquip = t.Choose("scn", 2) == 1
	sc.SubjectActive = t.Choose("scn", 2) == 1
	sc.Device = uint16(t.Choose("scn", 32768))
	sc.Senders = 1 + t.Choose("scn", 3)
	sc.PerSender = 4 + t.Choose("scn", 10)
	sc.PeerSends = t.Choose("scn", 8)
	hd := []time.Duration{0, 0, 300 * time.Millisecond, 2 * time.Second}
	sc.HandlerDelay = [2]time.Duration{hd[t.Choose("scn", 4)], hd[t.Choose("scn", 4)]}
	n := 1 + t.Choose("scn", 3)
	for i := 0; i < n; i++ {
		sc.Ends = append(sc.Ends, s1End{After: time.Duration(30+t.Choose("scn", 60)*10) * time.Millisecond, Kind: t.Choose("scn", 2)})
	}
	for i := 0; i < 12; i++ {
		sc.Sizes = append(sc.Sizes, []int{0, 20, 230, 300, 700}[t.Choose("scn", 5)])
	}

	return sc
}

func buildSECS1() core.BuildFunc {
	return func(w *core.World) *core.Scenario {
		h := &s1Harness{w: w, byTok: map[string]*s1Call{}, wire: map[string][]int{}}
		h.sc = genS1(w.T)
		sc := h.sc
		h.n = simnet.New(w)
		h.n.LatMin = time.Millisecond
		mk := func(subject bool) *rig.Rig1 {
			equip := sc.SubjectEquip == subject
			active := sc.SubjectActive == subject
			name := "o"
			if subject {
				name = "s"
			}

			return rig.NewSECS1(w, rig.Opts1{Active: active, Equip: equip, Device: sc.Device, T1: 40 * time.Millisecond, T2: 150 * time.Millisecond, T3: time.Second, T4: 5 * time.Second,
				T5: 200 * time.Millisecond, Retry: 2, BackoffInit: 15 * time.Millisecond, BackoffMult: 2, CloseTimeout: 500 * time.Millisecond, Net: h.n, Name: name})
		}
		h.sub, h.oth = mk(true), mk(false)
		h.sub.OnDeliver = func(m *hsms.DataMessage, ep hsms.SECS2Endpoint) { h.handle(0, m, ep) }
		h.oth.OnDeliver = func(m *hsms.DataMessage, ep hsms.SECS2Endpoint) { h.handle(1, m, ep) }
		h.n.Mangle = h.tap
		// the subject's generations are counted at its NotConnected->NotSelected transitions (exact, via
		// the atomic-write observer): connections a passive subject accepts only to refuse them (a second
		// dialer while the line is up) are links, but not generations
		simhook.Observer = func() {
			st := h.sub.C.State()
			if st == h.lastSt {
				return
			}
			if h.lastSt == hsms.NotConnectedState && st != hsms.NotConnectedState {
				var adopted *simnet.Link
				for i := len(h.n.Links) - 1; i >= 0; i-- {
					if c := h.subjectEnd(h.n.Links[i]); c != nil && c.Handed && c.ClosedAt < 0 {
						adopted = h.n.Links[i]

						break
					}
				}
				h.genLink = append(h.genLink, adopted)
			}
			h.lastSt = st
		}
		if sc.SubjectActive {
			h.oth.Open()
			w.After(2*time.Millisecond, "open-subject", func() { h.sub.Open() })
		} else {
			h.sub.Open()
			w.After(2*time.Millisecond, "open-other", func() { h.oth.Open() })
		}
		for i := 0; i < sc.Senders; i++ {
			i := i
			w.Go(fmt.Sprintf("s%d", i), func() { h.sender(i) })
		}
		w.Go("peer-app", h.peerApp)
		h.armEnd()

		return &core.Scenario{
			Desc:    h.describe(),
			Horizon: 120 * time.Second,
			Done:    func() bool { return h.finished && w.Idle() },
			Final:   h.final,
			Cleanup: func() { h.stop = true; _ = h.sub.C.Close(); _ = h.oth.C.Close() },
			Nontrivial: func() bool {
				return len(h.genLink) >= 2 && len(h.calls) > 0
			},
		}
	}
}

func (h *s1Harness) describe() map[string]any {
	sc := h.sc
	var ends []string
	for _, e := range sc.Ends {
		ends = append(ends, fmt.Sprintf("%s after %v", []string{"close+open", "line reset"}[e.Kind], e.After))
	}

	return map[string]any{"transport": "secs1", "subjectEquip": sc.SubjectEquip, "subjectActive": sc.SubjectActive, "device": sc.Device, "senders": sc.Senders, "sendsEach": sc.PerSender,
		"peerSends": sc.PeerSends, "handlerDelaySubject": sc.HandlerDelay[0].String(), "handlerDelayOther": sc.HandlerDelay[1].String(), "generationEnds": ends}
}

// tap records which link generation carries the first block of each of the subject's messages.
func (h *s1Harness) tap(p *simnet.Pipe, b []byte) []byte {
	if len(b) >= 13 && int(b[0]) == len(b)-3 {
		num := (int(b[5]&0x7F) << 8) | int(b[6])
		if num == 1 {
			body := b[11 : len(b)-2]
			if i := bytes.IndexByte(body, '|'); i > 0 {
				if j := bytes.LastIndexByte(body[:i], 't'); j >= 0 {
					tok := string(body[j:i])
					if c := h.byTok[tok]; c != nil {
						var lg int
						fmt.Sscanf(p.Name(), "L%d.", &lg)
						h.wire[tok] = append(h.wire[tok], h.genOfLink(lg))
					}
				}
			}
		}
	}

	return b
}

func (h *s1Harness) handle(side int, m *hsms.DataMessage, ep hsms.SECS2Endpoint) {
	if d := h.sc.HandlerDelay[side]; d > 0 && h.w.T.Choose("app", 3) == 0 {
		core.Sleep(d)
	}
	if m.WaitBit() {
		it, _ := m.Item()
		s := ""
		if it != nil {
			s, _ = it.ToASCII()
		}
		if i := strings.IndexByte(s, '|'); i > 0 {
			s = s[:i]
		}
		_ = ep.ReplyDataMessage(context.Background(), m, secs2.A("re:"+s))
	}
}

func (h *s1Harness) gen() int { return len(h.genLink) }

func (h *s1Harness) subjectEnd(l *simnet.Link) *simnet.Conn {
	if h.sc.SubjectActive {
		return l.A
	}

	return l.B
}

// subjectConn returns the subject's socket of its generation g (1-based).
func (h *s1Harness) subjectConn(g int) *simnet.Conn {
	if g < 1 || g > len(h.genLink) || h.genLink[g-1] == nil {
		return nil
	}

	return h.subjectEnd(h.genLink[g-1])
}

// genOfLink maps a link ordinal to the subject generation that adopted it (0 = none).
func (h *s1Harness) genOfLink(linkGen int) int {
	for i, l := range h.genLink {
		if l != nil && l.Gen == linkGen {
			return i + 1
		}
	}

	return 0
}

func (h *s1Harness) sender(si int) {
	defer func() { h.nDone++ }()
	w := h.w
	C := h.sub.C
	for i := 0; i < h.sc.PerSender && !h.stop; i++ {
		core.Sleep(time.Duration(5+w.T.Choose("app", 50)) * time.Millisecond)
		c := &s1Call{Tok: fmt.Sprintf("t%d-%d", si, i), W: w.T.Choose("app", 3) == 0}
		h.calls = append(h.calls, c)
		h.byTok[c.Tok] = c
		text := c.Tok + "|" + strings.Repeat("x", h.sc.Sizes[(si*5+i)%len(h.sc.Sizes)])
		c.GenCall, c.TCall = h.gen(), w.Now()
		w.Logf("call %s W=%v gen=%d", c.Tok, c.W, c.GenCall)
		rep, err := C.SendDataMessage(context.Background(), 1, 1, c.W, secs2.A(text))
		c.TRet, c.GenRet, c.Err, c.Done = w.Now(), h.gen(), err, true
		if rep != nil {
			if it, ierr := rep.Item(); ierr == nil && it != nil {
				c.Reply, _ = it.ToASCII()
			}
		}
		w.Logf("call %s end gen=%d err=%v reply=%q", c.Tok, c.GenRet, err, c.Reply)
	}
}

// peerApp: the other end sends messages too, so that the subject's data handler runs (and blocks).
func (h *s1Harness) peerApp() {
	for i := 0; i < h.sc.PeerSends && !h.stop; i++ {
		core.Sleep(time.Duration(20+h.w.T.Choose("app", 100)) * time.Millisecond)
		if h.oth.Selected() {
			_, _ = h.oth.C.SendDataMessage(context.Background(), 2, 1, false, secs2.A("peer|"+strings.Repeat("y", 300)))
		}
	}
}

func (h *s1Harness) armEnd() {
	w := h.w
	if h.endIdx >= len(h.sc.Ends) {
		var wait func()
		wait = func() {
			if h.nDone == h.sc.Senders {
				h.finished = true

				return
			}
			w.After(20*time.Millisecond, "finish-wait", wait)
		}
		w.After(20*time.Millisecond, "finish-wait", wait)
		w.After(40*time.Second, "finish-timeout", func() { h.stop = true })

		return
	}
	e := h.sc.Ends[h.endIdx]
	h.endIdx++
	var tick func()
	tick = func() {
		if !h.sub.Selected() || !h.oth.Selected() {
			w.After(5*time.Millisecond, "end-wait", tick)

			return
		}
		w.After(e.After, "generation-end", func() {
			if e.Kind == 0 {
				w.Fault("app-close")
				w.Go("closer", func() {
					_ = h.sub.C.Close()
					core.Sleep(time.Duration(h.w.T.Choose("app", 10)) * 10 * time.Millisecond)
					if err := h.sub.C.Open(context.Background(), hsms.OpenBackground); err != nil {
						w.Fail("REOPEN", "Open after Close: %v", err)
					}
					h.armEnd()
				})

				return
			}
			w.Fault("rst")
			if n := len(h.n.Links); n > 0 {
				h.n.Links[n-1].RST()
			}
			h.armEnd()
		})
	}
	w.After(5*time.Millisecond, "end-wait", tick)
}

func (h *s1Harness) final(reason string) {
	w := h.w
	for _, c := range h.calls {
		if !c.Done {
			w.Fail("BLOCKED", "send %s (W=%v) started at %v on generation %d never returned (run ended: %s at %v)", c.Tok, c.W, c.TCall, c.GenCall, reason, w.Now())

			return
		}
	}
	if !h.finished {
		w.Fail("NO_RECOVERY", "the run did not finish (reason %s; subject %v, other %v, %d links)", reason, h.sub.C.State(), h.oth.C.State(), len(h.n.Links))

		return
	}
	for _, c := range h.calls {
		closedAt := time.Duration(-1)
		if sc := h.subjectConn(c.GenCall); sc != nil {
			closedAt = sc.ClosedAt
		}
		// (1) generation binding
		lo, hi := c.GenCall, c.GenCall
		if c.GenCall == 0 || (closedAt >= 0 && closedAt <= c.TCall) {
			hi = c.GenRet
		}
		for _, g := range h.wire[c.Tok] {
			if g < lo || g > hi {
				w.Fail("STALE_FRAME", "send %s was called at %v during generation %d (socket closed by the library at %v) and returned at %v (generation %d, err=%v), but its first block was transmitted on generation %d",
					c.Tok, c.TCall, c.GenCall, closedAt, c.TRet, c.GenRet, c.Err, g)

				return
			}
		}
		// (2) replies belong to the call
		if c.Reply != "" && c.Reply != "re:"+c.Tok {
			w.Fail("WRONG_REPLY", "send %s returned the reply %q", c.Tok, c.Reply)

			return
		}
		if c.Err == nil && c.W && c.Reply == "" {
			w.Fail("NIL_NIL", "send %s (W-bit) returned neither a reply nor an error", c.Tok)

			return
		}
		// (3) promptness once the subject closed this generation's socket
		if closedAt >= 0 && closedAt >= c.TCall && c.TRet > closedAt+time.Millisecond {
			w.Fail("LATE", "send %s was pending on generation %d, whose socket the library closed at %v, but returned only at %v (err=%v; handler delays %v)", c.Tok, c.GenCall, closedAt, c.TRet, c.Err, h.sc.HandlerDelay)

			return
		}
		if closedAt >= 0 && closedAt >= c.TCall && c.TRet >= closedAt {
			w.Probe("secs1_call_completed_by_generation_end")
		}
		// (4) error class
		if c.Err != nil {
			e := c.Err
			if !errors.Is(e, hsms.ErrConnClosed) && !errors.Is(e, hsms.ErrNotSelectedState) && !errors.Is(e, hsms.ErrT3Timeout) && !errors.Is(e, secs1.ErrSendFailed) &&
				!errors.Is(e, context.Canceled) && !errors.Is(e, hsms.ErrNotOpen) && !strings.Contains(e.Error(), "closed") && !strings.Contains(e.Error(), "reset") && !strings.Contains(e.Error(), "pipe") && !strings.Contains(e.Error(), "EOF") {
				w.Fail("ERROR_CLASS", "send %s failed with an error outside the documented set: %v", c.Tok, e)

				return
			}
		}
	}
}
