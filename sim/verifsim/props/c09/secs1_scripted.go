package c09

// Configuration "secs1-scripted": one real secs1 connection against the independent E4 reference
// peer over 2-4 TCP generations. On every generation but the last the peer answers the library's
// W-bit primary with the FIRST block of a two-block secondary that carries the system bytes the
// library will use for its NEXT transaction, and then kills the connection. On the next generation
// the library's new primary arrives with exactly those system bytes; the peer now sends the SECOND
// block of the old secondary (header continuing the old message) and only then the proper,
// single-block reply. Nothing received on one generation may complete, or become part of, anything
// on another: the call must return exactly the fresh reply, the call of the dead generation must
// fail with the connection-closed error, and no handler may ever see a message stitched together
// from two generations (every block body is stamped with its generation).

import (
	"context"
	"errors"
	"fmt"
	"strings"
	"time"

	"github.com/arloliu/go-secs/v2/hsms"
	"github.com/arloliu/go-secs/v2/secs2"
	"github.com/arloliu/go-secs/v2/verifsim/core"
	"github.com/arloliu/go-secs/v2/verifsim/refe4"
	"github.com/arloliu/go-secs/v2/verifsim/refhsms"
	"github.com/arloliu/go-secs/v2/verifsim/rig"
	"github.com/arloliu/go-secs/v2/verifsim/simnet"
)

type s1sGen struct {
	p   *refe4.Peer
	l   *simnet.Link
	asm *refe4.Assembler
	n   int
}

type s1sCall struct {
	Tok     string
	GenCall int
	TCall   time.Duration
	TRet    time.Duration
	Err     error
	Reply   string
	Done    bool
}

type s1sHarness struct {
	w      *core.World
	r      *rig.Rig1
	equip  bool
	active bool
	device uint16
	nGens  int
	endBy  []int // how each generation but the last is ended: 0 RST, 1 FIN

	gens      []*s1sGen
	calls     []*s1sCall
	predicted uint32 // system bytes of the stale partial left on the previous generation
	haveStale bool
	staleHdr  refe4.Header
	staleText string
	handled   []string // texts delivered to the handlers
	usedLn    int
	finished  bool
	stop      bool
}

func buildSECS1Scripted() core.BuildFunc {
	return func(w *core.World) *core.Scenario {
		t := w.T
		h := &s1sHarness{w: w}
		h.equip = t.Choose("scn", 2) == 1
		h.active = t.Choose("scn", 2) == 1
		h.device = uint16(t.Choose("scn", 32768))
		h.nGens = 2 + t.Choose("scn", 3)
		for i := 0; i < h.nGens; i++ {
			h.endBy = append(h.endBy, t.Choose("scn", 2))
		}
		h.r = rig.NewSECS1(w, rig.Opts1{Active: h.active, Equip: h.equip, Device: h.device, T1: 40 * time.Millisecond, T2: 100 * time.Millisecond, T3: time.Second, T4: 10 * time.Second,
			T5: 200 * time.Millisecond, Retry: 2, BackoffInit: 20 * time.Millisecond, BackoffMult: 2, CloseTimeout: time.Second})
		r := h.r
		r.OnDeliver = func(m *hsms.DataMessage, ep hsms.SECS2Endpoint) {
			txt, _ := refhsms.ParseASCII(m.AppendBodyTo(nil))
			h.handled = append(h.handled, txt)
		}
		if h.active {
			r.N.OnConnect = func(l *simnet.Link) simnet.RawEnd {
				if g := h.cur(); g != nil && !g.p.Dead {
					return nil
				}
				g := h.newGen()
				g.p.L, g.l = l, l

				return g.p
			}
		} else {
			var tick func()
			tick = func() {
				if h.stop || h.finished {
					return
				}
				if g := h.cur(); (g == nil || g.p.Dead) && r.N.Listening(rig.Addr) && len(r.N.Listeners) > h.usedLn {
					h.usedLn = len(r.N.Listeners)
					g := h.newGen()
					if l := r.N.PeerConnect(rig.Addr, g.p); l != nil {
						g.p.L, g.l = l, l
					} else {
						h.gens = h.gens[:len(h.gens)-1]
					}
				}
				w.After(3*time.Millisecond, "peer-dial-tick", tick)
			}
			w.After(0, "peer-dial-tick", tick)
		}
		r.Open()
		w.Go("app", h.app)

		return &core.Scenario{
			Desc:       map[string]any{"transport": "secs1 vs scripted E4 peer", "equip": h.equip, "active": h.active, "device": h.device, "generations": h.nGens, "endedBy": h.endBy},
			Horizon:    120 * time.Second,
			Done:       func() bool { return h.finished && w.Idle() },
			Final:      h.final,
			Cleanup:    func() { h.stop = true; _ = r.C.Close() },
			Nontrivial: func() bool { return h.finished && len(h.gens) >= 2 },
		}
	}
}

func (h *s1sHarness) cur() *s1sGen {
	if len(h.gens) == 0 {
		return nil
	}

	return h.gens[len(h.gens)-1]
}

// text of n bytes stamped with the generation at both ends and filled with a per-generation letter
func genText(gen int, tag string, n int) string {
	head := fmt.Sprintf("[G%d:%s]", gen, tag)
	fill := strings.Repeat(string(rune('a'+gen%26)), n)

	return head + fill[len(head):n-len(head)] + head
}

func (h *s1sHarness) newGen() *s1sGen {
	g := &s1sGen{n: len(h.gens) + 1}
	g.p = refe4.New(h.w, !h.equip, 40*time.Millisecond, 100*time.Millisecond)
	g.asm = &refe4.Assembler{Device: h.device, ToHost: h.equip, T4: 10 * time.Second}
	g.p.OnBlock = func(b refe4.RxBlock) {
		if !b.Valid || b.Answer != refe4.ACK {
			return
		}
		k := len(g.asm.Out)
		g.asm.Feed(b.H, b.Body, b.At)
		if len(g.asm.Out) == k {
			return
		}
		m := g.asm.Out[len(g.asm.Out)-1]
		if m.H.W && m.H.Stream != 9 {
			h.onPrimary(g, m)
		}
	}
	h.gens = append(h.gens, g)
	h.w.Logf("scripted: generation %d up", g.n)

	return g
}

// onPrimary: the library's W-bit primary is complete on generation g.
func (h *s1sHarness) onPrimary(g *s1sGen, m refe4.Message) {
	w := h.w
	tok, _ := refhsms.ParseASCII(m.Body)
	rh := refe4.Header{Device: h.device, R: !m.H.R, Stream: m.H.Stream, Func: m.H.Func + 1, Num: 1, E: true, Sys: m.H.Sys}
	fresh := func() {
		if !g.p.Dead {
			g.p.SendBlock(refe4.Wire(rh, refhsms.ASCII(fmt.Sprintf("re:G%d:%s", g.n, tok))), nil, nil, nil)
		}
	}
	// the continuation of the partial the previous generation left behind
	if h.haveStale && m.H.Sys == h.predicted {
		h.haveStale = false
		w.Probe("stale_continuation_sent_on_next_generation")
		full := refhsms.ASCII(genText(g.n, "continuation", 400))
		ch := h.staleHdr
		ch.Num, ch.E = 2, true
		g.p.SendBlock(refe4.Wire(ch, full[244:]), nil, nil, func(refe4.TxResult) { fresh() })
	} else {
		if h.haveStale {
			w.Probe("system_bytes_prediction_missed")
			h.haveStale = false
		}
		fresh()
	}
	if g.n >= h.nGens {
		return
	}
	// not the last generation: after the exchange above, leave a partial two-block secondary for the
	// NEXT transaction's system bytes and kill the connection
	w.After(20*time.Millisecond, "leave-partial", func() {
		if g.p.Dead {
			return
		}
		h.predicted = m.H.Sys + 1
		h.staleHdr = refe4.Header{Device: h.device, R: !m.H.R, Stream: m.H.Stream, Func: m.H.Func + 1, Num: 1, E: false, Sys: h.predicted}
		h.staleText = genText(g.n, "partial", 400)
		full := refhsms.ASCII(h.staleText)
		g.p.SendBlock(refe4.Wire(h.staleHdr, full[:244]), nil, nil, func(res refe4.TxResult) {
			if res.Outcome == "ack" {
				h.haveStale = true
			}
			w.After(2*time.Millisecond, "kill-generation", func() {
				if g.l == nil {
					return
				}
				if h.endBy[g.n-1] == 0 {
					w.Fault("rst")
					g.l.RST()
				} else {
					w.Fault("fin")
					g.l.FIN()
				}
			})
		})
	})
}

func (h *s1sHarness) app() {
	w := h.w
	C := h.r.C
	for n := 1; n <= h.nGens && !h.stop; n++ {
		deadline := w.Now() + 10*time.Second
		for !h.stop && w.Now() < deadline {
			if g := h.cur(); g != nil && g.n >= n && !g.p.Dead && h.r.Selected() {
				break
			}
			core.Sleep(2 * time.Millisecond)
		}
		if g := h.cur(); g == nil || g.n < n {
			w.Fail("NO_RECOVERY", "generation %d never came up (state %v)", n, C.State())

			return
		}
		// on every generation but the last, a first call is answered by the fresh reply, and a second
		// one is left pending when the generation dies
		for k := 0; k < 2; k++ {
			c := &s1sCall{Tok: fmt.Sprintf("p%d-%d", n, k), GenCall: len(h.gens), TCall: w.Now()}
			h.calls = append(h.calls, c)
			ctx, cancel := context.WithTimeout(context.Background(), 3*time.Second)
			rep, err := C.SendDataMessage(ctx, 1, 1, true, secs2.A(c.Tok))
			cancel()
			c.TRet, c.Err, c.Done = w.Now(), err, true
			if rep != nil {
				c.Reply, _ = refhsms.ParseASCII(rep.AppendBodyTo(nil))
			}
			w.Logf("scripted: call %s gen=%d err=%v reply=%.40q", c.Tok, c.GenCall, err, c.Reply)
			if n < h.nGens {
				break // the generation is about to be killed: the next call belongs to the next one
			}
			core.Sleep(5 * time.Millisecond)
		}
		if n < h.nGens {
			// wait for the generation to die
			g := h.gens[n-1]
			for i := 0; i < 2000 && !g.p.Dead && !h.stop; i++ {
				core.Sleep(2 * time.Millisecond)
			}
		}
	}
	core.Sleep(50 * time.Millisecond)
	h.finished = true
}

func (h *s1sHarness) final(reason string) {
	w := h.w
	if !h.finished {
		w.Fail("BLOCKED", "the scenario did not finish (reason %s, %d generations of %d, state %v)", reason, len(h.gens), h.nGens, h.r.C.State())

		return
	}
	for _, c := range h.calls {
		if c.Err != nil {
			if !errors.Is(c.Err, hsms.ErrConnClosed) && !errors.Is(c.Err, hsms.ErrT3Timeout) && !errors.Is(c.Err, hsms.ErrNotSelectedState) {
				w.Fail("ERROR_CLASS", "call %s (generation %d) failed with %v", c.Tok, c.GenCall, c.Err)

				return
			}

			continue
		}
		want := fmt.Sprintf("re:G%d:%s", c.GenCall, c.Tok)
		if c.Reply != want {
			class := "WRONG_REPLY"
			if strings.Contains(c.Reply, "[G") {
				class = "STALE_REPLY"
			}
			w.Fail(class, "call %s, sent on generation %d, returned %.80q; the only reply the peer sent for it is %q — blocks received on an earlier generation (stamped [G<n>:partial]) must never complete a transaction of a later one", c.Tok, c.GenCall, c.Reply, want)

			return
		}
	}
	for _, txt := range h.handled {
		if strings.Contains(txt, ":partial]") {
			w.Fail("STALE_FRAME", "a handler received a message containing blocks of a partial message from a dead generation: %.80q", txt)

			return
		}
	}
	w.Probe("generations_kept_apart")
}
