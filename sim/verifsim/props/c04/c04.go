// Package c04 decides property C04: the receiver is robust to every segmentation and timing of a
// frame stream (same deliveries for every split; idle gaps never time out; an in-frame gap longer
// than T8 or a length field outside [10, cap] drops the link without allocating the claimed
// size), a data frame with an invalid body is accepted at frame level and reports the same body
// error to every holder on every call, and the decode entry points accept exactly the well-formed
// frames.
package c04

import (
	"bytes"
	"context"
	"encoding/binary"
	"errors"
	"fmt"
	"runtime"
	"time"

	"github.com/arloliu/go-secs/v2/hsms"
	"github.com/arloliu/go-secs/v2/verifsim/core"
	"github.com/arloliu/go-secs/v2/verifsim/refhsms"
	"github.com/arloliu/go-secs/v2/verifsim/rig"
)

const capLen = 1<<24 - 1 // SEMI E5 / the library's documented whole-frame cap

type fspec struct {
	Kind      string
	H         refhsms.Header
	Body      []byte
	Raw       []byte
	BodyValid bool
	Fatal     bool // length field outside [10, cap]
	Data      bool // well-formed data frame: must be delivered
}

type scenario struct {
	Active bool
	Equip  bool
	T8     time.Duration
	// BuiltT8: when non-zero the connection is built with this T8 and told the real one at run time
	// (UpdateConfigOptions), before the stream; Trace: per-frame wire tracing is on
	BuiltT8 time.Duration
	Trace   bool
	// Second: 0 none; otherwise the connection's first generation ends inside a frame (the fatal event of
	// the stream, or - after a clean stream - the peer closing after SecondCut bytes of a frame) and a
	// second generation follows on which the peer stays silent for SecondIdle (> T8) before its first byte
	Second     int
	SecondCut  int
	SecondRST  bool
	SecondIdle time.Duration
	// SecondWedge (clean streams only): the first generation is ended by the APPLICATION instead —
	// Close while a data handler is blocked past the close timeout (Close reports the timeout and
	// abandons the receive goroutine), then Open again; the second generation's frames are sent once the
	// handler has returned, so whatever the abandoned goroutine still does happens beside the new stream
	SecondWedge bool
	// FinBehind: no barrier; the peer closes its direction right behind the last byte of the stream.
	// EOFWithData: the simulated socket then hands the last bytes to the reader together with io.EOF
	// (legal for a net.Conn supplied through a custom dialer/listener). Either way every complete
	// frame of the stream is delivered before the link goes down.
	FinBehind   bool
	EOFWithData bool
	Frames      []fspec
	Cuts        []int // offsets into the stream, ascending, unique, in (0, len)
	Gaps        []time.Duration
}

type holderObs struct {
	Who string
	Err string
	Nil bool
	N   int
}

type delivery struct {
	Handler int
	Hdr     [10]byte
	Body    []byte
	At      time.Duration
	Obs     []holderObs
	pending int
}

type harness struct {
	t8Updated, t8Live bool
	w                 *core.World
	r                 *rig.Rig
	sc                scenario

	stream     []byte
	bounds     []int // cumulative end offsets of frames
	arrive     []time.Duration
	segEnd     []int
	c          *refhsms.Conn
	sent       bool
	sentAt     time.Duration
	deliv      []*delivery
	fatalKind  string // "", "t8", "length"
	dropAt     time.Duration
	nProcessed int // frames processed before the fatal event (all if none)
	barrier    uint32
	memBefore  uint64
	memAfter   uint64
	memTaken   bool
	lenArrive  time.Duration
	obsPending int

	// second generation
	reopened   bool
	wedgeState int // 0 none, 1 the data handler is blocked, 2 it has returned
	g2Stage    int
	g2EndAt    time.Duration
	c2         *refhsms.Conn
	g2OpenAt   time.Duration
	g2SentAt   time.Duration
	g2Frame    fspec
	deliv2     []*delivery
}

func validBody(t *core.Tape, i int) []byte {
	switch t.Weighted("scn", 5, 2, 2, 1, 1, 1) {
	case 0:
		return refhsms.ASCII(fmt.Sprintf("v%d-%d", i, t.Choose("scn", 1000)))
	case 1:
		return refhsms.ASCII(string(bytes.Repeat([]byte{'a' + byte(i%26)}, []int{0, 1, 254, 255, 256, 257, 1000, 3000}[t.Choose("scn", 8)])))
	case 2: // L[2] { A "x", U1 5 }
		return []byte{0x01, 0x02, 0x41, 0x01, 'x', 0xA5, 0x01, byte(i)}
	case 3: // L[0]
		return []byte{0x01, 0x00}
	case 4: // 3-byte length ASCII
		return refhsms.ASCII(string(bytes.Repeat([]byte{'z'}, 65536+t.Choose("scn", 5000))))
	default: // nested list
		return []byte{0x01, 0x01, 0x01, 0x02, 0x41, 0x00, 0x21, 0x01, 0x7F}
	}
}

func invalidBody(t *core.Tape) []byte {
	bad := [][]byte{
		{0x41, 0x05, 'a'},             // ASCII claims 5 bytes, 1 present
		{0x01, 0x02, 0x41, 0x01, 'x'}, // list of 2 with one child
		{0x40},                        // zero length bytes
		{0xFD, 0x01, 0x00},            // undefined format code
		{0x42, 0x01},                  // 2 length bytes, one present
		{0xB1, 0x03, 1, 2, 3},         // U4 with 3 bytes
	}

	return append([]byte(nil), bad[t.Choose("scn", len(bad))]...)
}

func genScenario(t *core.Tape) scenario {
	sc := scenario{}
	sc.Active = t.Choose("scn", 2) == 1
	sc.Equip = t.Choose("scn", 2) == 1
	sc.T8 = []time.Duration{200 * time.Millisecond, 50 * time.Millisecond, time.Second, 5 * time.Second}[t.Choose("scn", 4)]
	if t.Choose("scn", 3) == 0 {
		sc.BuiltT8 = []time.Duration{20 * time.Second, 20 * time.Millisecond}[t.Choose("scn", 2)]
	}
	sc.Trace = t.Choose("scn", 3) == 0
	if t.Choose("scn", 3) == 0 {
		sc.Second = 1
		sc.SecondCut = []int{1, 2, 4, 6, 13}[t.Choose("scn", 5)]
		sc.SecondRST = t.Choose("scn", 2) == 1
		sc.SecondIdle = sc.T8 + []time.Duration{30 * time.Millisecond, 2 * sc.T8}[t.Choose("scn", 2)]
		sc.SecondWedge = t.Choose("scn", 3) == 0
	}
	if sc.Second == 0 && t.Choose("scn", 4) == 0 {
		sc.FinBehind = true
		sc.EOFWithData = t.Choose("scn", 3) != 0
	}
	n := 1 + t.Choose("scn", 10)
	sess := uint16(0xFFFF)
	for i := 0; i < n; i++ {
		sys := uint32(0x20000 + i)
		var f fspec
		switch t.Weighted("scn", 8, 3, 2, 2, 1, 1, 1) {
		case 0:
			f = fspec{Kind: "data", H: refhsms.DataHeader(sess, byte(1+t.Choose("scn", 100)), byte(t.Choose("scn", 256)), false, sys), Body: validBody(t, i), BodyValid: true, Data: true}
			if f.H.B3%2 == 1 && t.Choose("scn", 2) == 1 {
				f.H.B2 |= 0x80
			}
		case 1:
			f = fspec{Kind: "data-invalid-body", H: refhsms.DataHeader(sess, byte(1+t.Choose("scn", 100)), byte(t.Choose("scn", 256)), false, sys), Body: invalidBody(t), Data: true}
		case 2:
			f = fspec{Kind: "data-empty", H: refhsms.DataHeader(sess, byte(1+t.Choose("scn", 100)), byte(t.Choose("scn", 256)), false, sys), BodyValid: true, Data: true}
		case 3:
			f = fspec{Kind: "linktest.req", H: refhsms.Header{Session: 0xFFFF, SType: refhsms.STLinktestReq, Sys: sys}}
		case 4:
			f = fspec{Kind: "undefined-stype", H: refhsms.Header{Session: sess, SType: byte(10 + t.Choose("scn", 240)), Sys: sys}}
		case 5:
			f = fspec{Kind: "ptype", H: refhsms.Header{Session: sess, PType: byte(1 + t.Choose("scn", 255)), SType: byte(t.Choose("scn", 10)), Sys: sys}}
		default:
			f = fspec{Kind: "control-with-body", H: refhsms.Header{Session: sess, SType: refhsms.STLinktestReq, Sys: sys}, Body: []byte{1, 2, 3}}
		}
		f.Raw = refhsms.Frame(f.H, f.Body)
		sc.Frames = append(sc.Frames, f)
	}
	if t.Bias("scn", 1, 5) {
		ls := []uint32{0, 1, 9, 1 << 24, 1<<24 + 5, 0x7FFFFFFF, 0x80000000, 0xFFFFFFFF, 1 << 28}
		l := ls[t.Choose("scn", len(ls))]
		raw := make([]byte, 4, 24)
		binary.BigEndian.PutUint32(raw, l)
		raw = append(raw, bytes.Repeat([]byte{0}, 10+t.Choose("scn", 8))...)
		sc.Frames = append(sc.Frames, fspec{Kind: fmt.Sprintf("bad-length-%d", l), Raw: raw, Fatal: true})
	}
	total := 0
	var starts []int
	for _, f := range sc.Frames {
		starts = append(starts, total)
		total += len(f.Raw)
	}
	// cut points: biased to the interesting places (inside the length word, at the length/header
	// boundary, inside the header, at frame boundaries) plus uniform ones
	nc := t.Choose("scn", 9)
	var cuts []int
	for i := 0; i < nc; i++ {
		var c int
		if t.Bias("scn", 1, 2) {
			fi := t.Choose("scn", len(sc.Frames))
			offs := []int{0, 1, 2, 3, 4, 5, 13, 14, 15}
			c = starts[fi] + offs[t.Choose("scn", len(offs))]
		} else {
			c = t.Choose("scn", total+1)
		}
		if c > 0 && c < total {
			cuts = append(cuts, c)
		}
	}
	sc.Cuts = sortUniq(cuts)
	for range sc.Cuts {
		var g time.Duration
		switch t.Weighted("scn", 6, 2, 2, 2, 1, 1, 1) {
		case 0:
			g = time.Millisecond
		case 1:
			g = 0
		case 2:
			g = sc.T8 / 2
		case 3:
			g = sc.T8 - 2*time.Millisecond
		case 4:
			g = sc.T8 + 2*time.Millisecond
		case 5:
			g = 3 * sc.T8
		default:
			g = 10 * sc.T8
		}
		sc.Gaps = append(sc.Gaps, g)
	}

	return sc
}

func sortUniq(xs []int) []int {
	for i := 1; i < len(xs); i++ {
		for j := i; j > 0 && xs[j] < xs[j-1]; j-- {
			xs[j], xs[j-1] = xs[j-1], xs[j]
		}
	}
	var out []int
	for i, x := range xs {
		if i == 0 || x != xs[i-1] {
			out = append(out, x)
		}
	}

	return out
}

// Build returns the scenario builder.
func Build(config string) core.BuildFunc {
	return func(w *core.World) *core.Scenario {
		h := &harness{w: w}
		h.sc = genScenario(w.T)
		sc := h.sc
		if !h.decodeEntryPoints() {
			return &core.Scenario{Desc: h.describe(), Horizon: time.Second, Done: func() bool { return true }}
		}
		t8 := sc.T8
		if sc.BuiltT8 > 0 {
			t8 = sc.BuiltT8
		}
		t5, b0 := 500*time.Second, 400*time.Second
		if sc.Second != 0 {
			t5, b0 = 300*time.Millisecond, 100*time.Millisecond
		}
		h.r = rig.New(w, rig.Opts{Active: sc.Active, Equip: sc.Equip, T8: t8, TraceTraffic: sc.Trace, T3: 600 * time.Second, T6: 600 * time.Second, T7: 600 * time.Second,
			T5: t5, BackoffInit: b0, BackoffMult: 1, NoDataHandlers: true, CloseTimeout: 2 * time.Second})
		r := h.r
		r.N.EOFWithData = sc.EOFWithData
		r.P.AutoSelectRsp = 0
		r.P.AutoLinktest = true
		r.N.ShortRead = func(avail int) int {
			if w.T.Bias("net", 1, 5) {
				return 1 + w.T.Choose("net", avail)
			}

			return avail
		}
		for hi := 0; hi < 2; hi++ {
			hi := hi
			r.C.AddDataMessageHandler(func(m *hsms.DataMessage, ep hsms.SECS2Endpoint) { h.onData(hi, m) })
		}
		r.Open(hsms.OpenBackground)
		if !sc.Active {
			var try func()
			try = func() {
				if h.c != nil {
					return
				}
				if r.N.Listening(rig.Addr) {
					if c := r.P.Connect(rig.Addr); c != nil {
						h.c = c
						c.SelectReq()

						return
					}
				}
				w.After(5*time.Millisecond, "peer-connect", try)
			}
			w.After(0, "peer-connect", try)
		}
		w.AddMonitor(func() {
			if h.sent {
				if h.fatalKind == "length" && !h.memTaken && h.c != nil && !h.c.Alive() {
					var ms runtime.MemStats
					runtime.ReadMemStats(&ms)
					h.memAfter = ms.TotalAlloc
					h.memTaken = true
				}
				if sc.Second != 0 {
					h.second()
				}

				return
			}
			if h.c == nil {
				h.c = r.P.Last()
			}
			if h.c != nil && r.Selected() && h.c.L.ToLib().InFlight() == 0 {
				if sc.BuiltT8 > 0 && !h.t8Live {
					// the real T8 is set on the live connection; one complete frame is then exchanged (the
					// receive loop reads the timer when it starts waiting for a frame, so the frame it was
					// already waiting for is still under the old value)
					if !h.t8Updated {
						h.t8Updated = true
						if err := r.C.UpdateConfigOptions(hsms.WithT8(sc.T8)); err != nil {
							w.Fail("HARNESS", "UpdateConfigOptions(WithT8): %v", err)

							return
						}
						w.Probe("t8_updated_at_run_time")
						h.c.SendFrame(refhsms.Header{Session: 0xFFFF, SType: refhsms.STLinktestReq, Sys: 0x7FFFFFF0}, nil)
					}
					for _, f := range h.c.Rx {
						if f.H.SType == refhsms.STLinktestRsp && f.H.Sys == 0x7FFFFFF0 {
							h.t8Live = true
						}
					}
					if !h.t8Live {
						return
					}
				}
				h.transmit()
			}
		})
		var sum time.Duration
		for _, g := range sc.Gaps {
			sum += g
		}

		return &core.Scenario{
			Desc:    h.describe(),
			Horizon: sum + 60*time.Second + 4*sc.SecondIdle,
			Done:    h.done,
			Final:   h.final,
			Cleanup: func() { r.Close() },
			Nontrivial: func() bool {
				return h.sent && (len(sc.Cuts) > 0 || len(sc.Frames) > 1)
			},
		}
	}
}

func (h *harness) describe() map[string]any {
	sc := h.sc
	var kinds []string
	for _, f := range sc.Frames {
		kinds = append(kinds, fmt.Sprintf("%s/%d", f.Kind, len(f.Raw)))
	}
	var gaps []string
	for _, g := range sc.Gaps {
		gaps = append(gaps, g.String())
	}

	return map[string]any{"active": sc.Active, "equip": sc.Equip, "T8": sc.T8.String(), "builtWithT8": sc.BuiltT8.String(), "traceTraffic": sc.Trace, "finBehind": sc.FinBehind, "eofWithData": sc.EOFWithData, "second": sc.Second != 0, "secondIdle": sc.SecondIdle.String(), "secondCut": sc.SecondCut, "secondRST": sc.SecondRST, "secondByAppCloseWithWedgedHandler": sc.SecondWedge, "frames": kinds, "cuts": sc.Cuts, "gaps": gaps}
}

// wellFormed is the reference acceptance rule for a complete on-wire frame.
func wellFormed(b []byte) bool {
	if len(b) < 14 {
		return false
	}
	l := binary.BigEndian.Uint32(b[:4])
	if l < 10 || l > capLen || int(l) != len(b)-4 {
		return false
	}
	if b[8] != 0 {
		return false
	}
	switch b[9] {
	case 0, 1, 2, 3, 4, 5, 6, 7, 9:
		return true
	}

	return false
}

// decodeEntryPoints offers the generated frames (and damaged variants) to the three decode entry
// points and compares accept/reject with the reference rule. This half of the property is a
// claim over inputs; it is checked here as a by-product on sampled inputs.
func (h *harness) decodeEntryPoints() (ok bool) {
	w := h.w
	t := w.T
	defer func() {
		if r := recover(); r != nil {
			w.Fail("DECODE_PANIC", "a decode entry point panicked: %v", r)
			ok = false
		}
	}()
	try := func(b []byte, what string) bool {
		want := wellFormed(b)
		bm := append([]byte(nil), b...)
		m, err := hsms.DecodeHSMSMessage(bm)
		if (err == nil) != want || (err == nil) != (m != nil) {
			w.Fail("DECODE_ACCEPT", "DecodeHSMSMessage(%s, %d bytes, header % x): accepted=%v, well-formed=%v (err=%v)", what, len(b), head(b), err == nil, want, err)

			return false
		}
		if len(b) >= 4 {
			p := b[4:]
			wantP := len(p) >= 10 && len(p) <= capLen && p[4] == 0 && definedSType(p[5])
			bp := append([]byte(nil), p...)
			m2, err2 := hsms.DecodeHSMSPayload(bp)
			m3, err3 := hsms.DecodeOwnedHSMSPayload(append([]byte(nil), p...))
			if (err2 == nil) != wantP || (err3 == nil) != wantP || (err2 == nil) != (m2 != nil) || (err3 == nil) != (m3 != nil) {
				w.Fail("DECODE_ACCEPT", "DecodeHSMSPayload/DecodeOwnedHSMSPayload(%s, %d bytes, header % x): accepted=%v/%v, well-formed=%v", what, len(p), head(b), err2 == nil, err3 == nil, wantP)

				return false
			}
			if wantP && want {
				hb := m.HeaderBytes()
				if !bytes.Equal(hb[:], p[:10]) || m2.HeaderBytes() != hb || m3.HeaderBytes() != hb {
					w.Fail("DECODE_ACCEPT", "decoded header differs from the wire header % x", p[:10])

					return false
				}
				// the caller re-uses its buffers (with a body of the opposite verdict) before anybody asked
				// for the body: the messages decoded from them report what was on the wire, on every call
				d1, ok1 := m.(*hsms.DataMessage)
				d2, ok2 := m2.(*hsms.DataMessage)
				d3, ok3 := m3.(*hsms.DataMessage)
				if ok1 && ok2 && ok3 && len(p) >= 12 && len(p)-12 < 250 {
					wantErr := ""
					if e := d3.DecodeErr(); e != nil {
						wantErr = e.Error()
					}
					for _, buf := range [][]byte{bm[4:], bp} {
						body := buf[10:]
						if wantErr == "" {
							for i := range body {
								body[i] = 0xFD
							}
						} else {
							body[0], body[1] = 0x41, byte(len(body)-2)
							for i := 2; i < len(body); i++ {
								body[i] = 'x'
							}
						}
					}
					for k, d := range []*hsms.DataMessage{d1, d2, d1.WithSessionID(3), d2.WithSystemBytes([4]byte{1, 2, 3, 4}), d1, d2} {
						got := ""
						if e := d.DecodeErr(); e != nil {
							got = e.Error()
						}
						if got != wantErr || !bytes.Equal(d.AppendBodyTo(nil), p[10:]) {
							w.Fail("BODY_ERROR", "%s: the caller re-used the buffer it had passed to %s before the first call for the body; holder %d now reports body error %q and body % x, the frame on the wire had body % x with verdict %q",
								what, []string{"DecodeHSMSMessage", "DecodeHSMSPayload"}[k%2], k, got, clip(d.AppendBodyTo(nil)), clip(p[10:]), wantErr)

							return false
						}
					}
					w.Probe("decode_buffer_reused_before_first_body_call")
				}
			}
		}

		return true
	}
	if t.Bias("dec", 1, 30) {
		// the size boundary: a data frame whose body is one Binary item filling the frame exactly, with
		// the length field at, just below and just above the cap (the receive path's cap is exercised
		// on the wire with the length field alone; here the bytes really are there)
		l := capLen + []int{-1, 0, 1, 2, 10, 11}[t.Choose("dec", 6)]
		b := make([]byte, 4+l)
		binary.BigEndian.PutUint32(b[:4], uint32(l))
		copy(b[4:14], []byte{0, 1, 0x81, 1, 0, 0, 0, 0, 0, 9})
		n := l - 10 - 4
		b[14], b[15], b[16], b[17] = 0x23, byte(n>>16), byte(n>>8), byte(n)
		w.Probe(fmt.Sprintf("decode_size_boundary_cap%+d", l-capLen))
		if !try(b, fmt.Sprintf("data/length-field=cap%+d", l-capLen)) {
			return false
		}
	}
	for _, f := range h.sc.Frames {
		if len(f.Raw) > 5000 {
			continue
		}
		if !try(f.Raw, f.Kind) {
			return false
		}
		// damaged variants
		switch t.Choose("dec", 6) {
		case 0:
			if !try(f.Raw[:len(f.Raw)-1], f.Kind+"/truncated") {
				return false
			}
		case 1:
			if !try(append(append([]byte(nil), f.Raw...), 0), f.Kind+"/extra-byte") {
				return false
			}
		case 2:
			b := append([]byte(nil), f.Raw...)
			if len(b) >= 14 {
				b[8] = byte(t.Choose("dec", 256))
				b[9] = byte(t.Choose("dec", 12))
				if !try(b, f.Kind+"/ptype-stype") {
					return false
				}
			}
		case 3:
			b := append([]byte(nil), f.Raw...)
			if len(b) >= 14 {
				b[9] = byte(t.Choose("dec", 256))
				if !try(b, f.Kind+"/stype") {
					return false
				}
			}
		case 4:
			if !try(f.Raw[:t.Choose("dec", len(f.Raw)+1)], f.Kind+"/prefix") {
				return false
			}
		}
	}

	return true
}

func definedSType(s byte) bool {
	switch s {
	case 0, 1, 2, 3, 4, 5, 6, 7, 9:
		return true
	}

	return false
}

func head(b []byte) []byte {
	if len(b) > 14 {
		return b[:14]
	}

	return b
}

// onData is the data handler (library receive goroutine): it records the delivery and has
// several holders of the message — the message itself, re-stamped copies, and freshly spawned
// goroutines racing their first calls — ask for the body error.
func (h *harness) onData(hi int, m *hsms.DataMessage) {
	w := h.w
	if hb := m.HeaderBytes(); refhsms.Unpack(hb[:]).Sys == wedgeSys {
		if hi == 0 {
			core.Sleep(3 * 2 * time.Second) // three close timeouts
			h.wedgeState = 2
			w.Probe("abandoned_receive_goroutine_resumes_beside_the_new_stream")
			w.After(20*time.Millisecond, "after-wedge", func() {})
		}

		return
	}
	d := &delivery{Handler: hi, Hdr: m.HeaderBytes(), Body: m.AppendBodyTo(nil), At: w.Now()}
	if h.g2Stage >= 3 {
		h.deliv2 = append(h.deliv2, d)
	} else {
		h.deliv = append(h.deliv, d)
	}
	obs := func(who string, mm *hsms.DataMessage) {
		for k := 0; k < 2; k++ {
			err := mm.DecodeErr()
			it, err2 := mm.Item()
			o := holderObs{Who: who, N: k, Nil: it == nil}
			if err != nil {
				o.Err = err.Error()
			}
			if (err == nil) != (err2 == nil) || (err != nil && err.Error() != err2.Error()) {
				o.Err = fmt.Sprintf("DecodeErr()=%v but Item() err=%v", err, err2)
			}
			d.Obs = append(d.Obs, o)
		}
	}
	racers := w.T.Choose("app", 3)
	copies := []*hsms.DataMessage{m.WithSystemBytes([4]byte{9, 9, 9, byte(hi)}), m.WithSessionID(7)}
	for k := 0; k < racers; k++ {
		k := k
		d.pending++
		h.obsPending++
		mm := copies[k%2]
		w.Go(fmt.Sprintf("holder%d", k), func() {
			obs(fmt.Sprintf("goroutine%d", k), mm)
			d.pending--
			h.obsPending--
		})
	}
	if w.T.Choose("app", 2) == 0 {
		obs("handler", m)
	}
	obs("restamped", copies[0])
}

// transmit computes the reference timeline and sends the stream.
func (h *harness) transmit() {
	sc := h.sc
	h.sent = true
	h.sentAt = h.w.Now()
	for _, f := range sc.Frames {
		h.stream = append(h.stream, f.Raw...)
		h.bounds = append(h.bounds, len(h.stream))
	}
	// barrier: a Linktest.req behind everything (only meaningful when no fatal event happens)
	h.barrier = 0x7FFFFFF1
	last := sc.Frames[len(sc.Frames)-1]
	if !last.Fatal && !sc.FinBehind {
		h.stream = append(h.stream, refhsms.Frame(refhsms.Header{Session: 0xFFFF, SType: refhsms.STLinktestReq, Sys: h.barrier}, nil)...)
	}
	gaps := append([]time.Duration{time.Millisecond}, sc.Gaps...)
	segStart := append([]int{0}, sc.Cuts...)
	h.segEnd = append(append([]int(nil), sc.Cuts...), len(h.stream))
	at := h.sentAt
	for i := range segStart {
		at += gaps[i]
		h.arrive = append(h.arrive, at)
	}
	isBoundary := func(off int) bool {
		for _, b := range h.bounds {
			if b == off {
				return true
			}
		}

		return false
	}
	// first fatal event
	fatalSeg := -1 // T8: the segment that arrives too late
	for i := 1; i < len(segStart); i++ {
		if !isBoundary(segStart[i]) && gaps[i] > sc.T8 {
			fatalSeg = i
			break
		}
	}
	lenSeg := -1
	if last.Fatal {
		off := h.bounds[len(h.bounds)-1] - len(last.Raw) + 3 // offset of the 4th length byte
		for i, e := range h.segEnd {
			if off < e {
				lenSeg = i
				break
			}
		}
	}
	processedUpTo := len(h.stream)
	switch {
	case fatalSeg >= 0 && (lenSeg < 0 || fatalSeg <= lenSeg):
		h.fatalKind = "t8"
		h.dropAt = h.arrive[fatalSeg-1] + sc.T8
		processedUpTo = segStart[fatalSeg]
		h.w.Fault("in-frame-gap>T8")
	case lenSeg >= 0:
		h.fatalKind = "length"
		h.dropAt = h.arrive[lenSeg]
		h.lenArrive = h.arrive[lenSeg]
		processedUpTo = h.bounds[len(h.bounds)-1] - len(last.Raw)
		h.w.Fault("bad-length")
	}
	for i, b := range h.bounds {
		if b <= processedUpTo && !sc.Frames[i].Fatal {
			h.nProcessed = i + 1
		}
	}
	for i := 1; i < len(segStart); i++ {
		if isBoundary(segStart[i]) && gaps[i] > sc.T8 && (h.fatalKind == "" || h.arrive[i] <= h.dropAt) {
			h.w.Fault("idle-gap>T8")
		}
	}
	if h.fatalKind == "length" {
		var ms runtime.MemStats
		runtime.ReadMemStats(&ms)
		h.memBefore = ms.TotalAlloc
	}
	h.c.SendRawCut(h.stream, refhsms.Header{}, nil, true, sc.Cuts, gaps)
	if sc.FinBehind {
		h.w.Fault("peer-closes-right-behind-the-last-frame")
		h.c.L.FIN()
	}
}

func (h *harness) hasBarrier() bool {
	for _, f := range h.c.Rx {
		if f.H.SType == refhsms.STLinktestRsp && f.H.Sys == h.barrier {
			return true
		}
	}

	return false
}

func (h *harness) done() bool {
	if !h.sent || !h.w.Idle() || h.obsPending > 0 {
		return false
	}
	if h.sc.Second != 0 && (h.fatalKind != "" || h.hasBarrier()) {
		if h.g2Stage >= 5 {
			return true
		}
		// never stuck: the second generation gets a generous budget after the first one ended
		return h.g2EndAt > 0 && h.w.Now() > h.g2EndAt+10*time.Second+4*h.sc.SecondIdle
	}
	if h.fatalKind != "" {
		return h.w.Now() > h.dropAt+50*time.Millisecond
	}

	return h.hasBarrier() || !h.c.Alive()
}

const (
	barrier2 = 0x7FFFFFF2
	wedgeSys = 0x2FFFE
)

// second drives the second generation (monitor context). Stages: 0 wait for the first generation to
// end inside a frame; 1 wait for the new connection; 2 stay silent for SecondIdle, then start the
// select handshake; 3 Selected: one data frame cut inside its header (gap T8/2), an idle gap of 2*T8,
// a Linktest.req barrier; 4 wait for the barrier; 5 finished.
func (h *harness) second() {
	w, sc, r := h.w, h.sc, h.r
	switch h.g2Stage {
	case 0:
		if h.fatalKind == "" {
			if !h.hasBarrier() || !h.c.Alive() {
				return
			}
			if sc.SecondWedge {
				h.wedgeState = 1
				w.Fault("data-handler-blocks-across-close-and-reopen")
				h.c.SendFrame(refhsms.DataHeader(0xFFFF, 1, 1, false, wedgeSys), refhsms.ASCII("wedge"))
				w.Go("app-close-reopen", func() {
					core.Sleep(5 * time.Millisecond)
					err := r.C.Close()
					if err != nil && !errors.Is(err, hsms.ErrCloseTimeout) {
						w.Fail("HARNESS", "Close: %v", err)

						return
					}
					if err := r.C.Open(context.Background(), hsms.OpenBackground); err != nil {
						w.Fail("HARNESS", "Open after Close: %v", err)
					}
					h.reopened = true
				})
				r.P.AutoSelectRsp = -1
				h.g2EndAt = w.Now()
				h.g2Stage = 1
				var tick func()
				tick = func() {
					if h.g2Stage == 1 || h.wedgeState == 1 {
						w.After(5*time.Millisecond, "second-connect-tick", tick)
					}
				}
				w.After(20*time.Millisecond, "second-connect-tick", tick)

				return
			}
			// a clean stream: the peer starts one more frame and goes away inside it
			part := refhsms.Frame(refhsms.DataHeader(0xFFFF, 1, 1, false, 0x2FFFF), refhsms.ASCII("cut short"))[:sc.SecondCut]
			h.c.SendRaw(part, refhsms.Header{}, nil, false)
			c := h.c
			w.Fault("peer-closes-mid-frame")
			w.After(3*time.Millisecond, "peer-closes-mid-frame", func() {
				if sc.SecondRST {
					c.L.RST()
				} else {
					c.L.FIN()
				}
			})
		} else if h.c.Alive() {
			return
		}
		r.P.AutoSelectRsp = -1
		h.g2EndAt = w.Now()
		h.g2Stage = 1
		var tick func()
		tick = func() {
			if h.g2Stage == 1 {
				w.After(5*time.Millisecond, "second-connect-tick", tick)
			}
		}
		w.After(20*time.Millisecond, "second-connect-tick", tick)
	case 1:
		if sc.SecondWedge && h.fatalKind == "" && !h.reopened {
			return
		}
		if sc.Active {
			if c := r.P.Last(); c != nil && c != h.c {
				h.c2 = c
			}
		} else if r.N.Listening(rig.Addr) && w.Now() >= h.g2EndAt+20*time.Millisecond {
			h.c2 = r.P.Connect(rig.Addr)
		}
		if h.c2 != nil {
			h.g2OpenAt = w.Now()
			h.g2Stage = 2
			w.Probe("second_generation_up")
			w.After(sc.SecondIdle, "second-idle-over", func() {})
		}
	case 2:
		if w.Now() < h.g2OpenAt+sc.SecondIdle || h.wedgeState == 1 {
			return
		}
		if sc.Active {
			for _, f := range h.c2.Rx {
				if f.H.SType == refhsms.STSelectReq {
					h.c2.SendFrame(refhsms.Header{Session: f.H.Session, SType: refhsms.STSelectRsp, Sys: f.H.Sys}, nil)
					h.g2Stage = 3
				}
			}
			if h.g2Stage != 3 && !h.c2.Alive() {
				h.g2Stage = 5
			}
		} else {
			h.c2.SelectReq()
			h.g2Stage = 3
		}
		if h.g2Stage == 3 {
			w.Fault("idle-gap>T8")
		}
	case 3:
		if !h.c2.Alive() {
			h.g2Stage = 5

			return
		}
		if !r.Selected() || h.c2.L.ToLib().InFlight() != 0 {
			return
		}
		h.g2Frame = fspec{Kind: "data", H: refhsms.DataHeader(0xFFFF, 3, 7, false, 0x30000), Body: refhsms.ASCII("second generation"), BodyValid: true, Data: true}
		raw := refhsms.Frame(h.g2Frame.H, h.g2Frame.Body)
		n := len(raw)
		raw = append(raw, refhsms.Frame(refhsms.Header{Session: 0xFFFF, SType: refhsms.STLinktestReq, Sys: barrier2}, nil)...)
		h.g2SentAt = w.Now()
		h.c2.SendRawCut(raw, refhsms.Header{}, nil, true, []int{7, n}, []time.Duration{time.Millisecond, sc.T8 / 2, 2 * sc.T8})
		w.Fault("idle-gap>T8")
		h.g2Stage = 4
	case 4:
		for _, f := range h.c2.Rx {
			if f.H.SType == refhsms.STLinktestRsp && f.H.Sys == barrier2 {
				h.g2Stage = 5
			}
		}
		if !h.c2.Alive() {
			h.g2Stage = 5
		}
	}
}

// finalSecond: the second generation must not inherit anything from the frame the first one died in.
func (h *harness) finalSecond(reason string) {
	w, sc := h.w, h.sc
	how := "the fatal event of the stream (" + h.fatalKind + ")"
	if h.fatalKind == "" {
		how = fmt.Sprintf("the peer closing %d bytes into a frame", sc.SecondCut)
		if sc.SecondWedge {
			how = "the application's Close while a data handler was blocked past the close timeout (reopened by the application; the handler has returned since)"
		}
	}
	if h.c2 == nil {
		w.Fail("NO_SECOND", "no second connection within %v of the first one ending at %v (state %v)", w.Now()-h.g2EndAt, h.g2EndAt, h.r.C.State())

		return
	}
	c := h.c2
	if !c.Alive() {
		at := c.L.A.ClosedAt
		what := "while the peer had not yet sent a byte on it"
		if h.g2SentAt > 0 {
			what = fmt.Sprintf("after the peer started its stream at %v (in-header gap %v, idle gap between frames %v)", h.g2SentAt, sc.T8/2, 2*sc.T8)
		}
		w.Fail("IDLE_DROPPED", "second generation (opened %v, after the first one was ended by %s): the library closed it at %v %s; the peer was silent for %v before its first byte, T8 is %v — an idle connection is never timed out by T8%s",
			h.g2OpenAt, how, at, what, sc.SecondIdle, sc.T8, h.ctx())

		return
	}
	if h.g2Stage < 5 {
		w.Fail("STUCK", "second generation: the barrier Linktest.req was never answered (stage %d, run ended: %s)%s", h.g2Stage, reason, h.ctx())

		return
	}
	for hi := 0; hi < 2; hi++ {
		n := 0
		for _, d := range h.deliv2 {
			if d.Handler == hi {
				n++
				if d.Hdr != h.g2Frame.H.Pack() || !bytes.Equal(d.Body, h.g2Frame.Body) {
					w.Fail("DELIVERY", "second generation, handler %d: header %x body %d bytes, want %x body %d bytes", hi, d.Hdr, len(d.Body), h.g2Frame.H.Pack(), len(h.g2Frame.Body))

					return
				}
			}
		}
		if n != 1 {
			w.Fail("DELIVERY", "second generation: handler %d received %d data messages, the peer sent 1%s", hi, n, h.ctx())

			return
		}
	}
	w.Probe("second_generation_clean_after_mid_frame_end")
}

func (h *harness) final(reason string) {
	h.finalFirst(reason)
	if h.w.Viol == nil && h.sc.Second != 0 && h.sent && h.g2Stage >= 1 {
		h.finalSecond(reason)
	}
}

func (h *harness) finalFirst(reason string) {
	w, sc := h.w, h.sc
	if !h.sent {
		w.Fail("HARNESS", "the session was never established (reason %s, state %v)", reason, h.r.C.State())

		return
	}
	// ---- deliveries: exactly the data frames processed before the fatal event, in order, byte-identical
	var exp []fspec
	for i := 0; i < h.nProcessed; i++ {
		if sc.Frames[i].Data {
			exp = append(exp, sc.Frames[i])
		}
	}
	for hi := 0; hi < 2; hi++ {
		var got []*delivery
		for _, d := range h.deliv {
			if d.Handler == hi {
				got = append(got, d)
			}
		}
		if len(got) != len(exp) {
			w.Fail("DELIVERY", "handler %d received %d data messages; the reference framer says %d for this stream and segmentation (fatal event: %q at %v)%s", hi, len(got), len(exp), h.fatalKind, h.dropAt, h.ctx())

			return
		}
		for i, d := range got {
			e := exp[i]
			if d.Hdr != e.H.Pack() || !bytes.Equal(d.Body, e.Body) {
				w.Fail("DELIVERY", "handler %d message %d: header %x body %d bytes, want %x body %d bytes%s", hi, i, d.Hdr, len(d.Body), e.H.Pack(), len(e.Body), h.ctx())

				return
			}
			// (e) every holder, every call: the same verdict on the body
			if len(d.Obs) == 0 {
				continue
			}
			first := d.Obs[0].Err
			for _, o := range d.Obs {
				if o.Err != first {
					w.Fail("BODY_ERROR", "message %d (%s): holder %s call %d reports body error %q but holder %s reported %q", i, e.Kind, o.Who, o.N, o.Err, d.Obs[0].Who, first)

					return
				}
			}
			if (first == "") != e.BodyValid {
				w.Fail("BODY_ERROR", "message %d (%s, body % x): body error %q, but the body is valid=%v", i, e.Kind, clip(e.Body), first, e.BodyValid)

				return
			}
			if first != "" {
				w.Probe("invalid_body_delivered_at_frame_level")
			}
		}
	}
	// both handlers saw the same verdicts
	// ---- link fate
	c := h.c
	switch h.fatalKind {
	case "":
		if sc.FinBehind {
			// the peer closed behind the stream: the deliveries (checked above) are the whole verdict; the
			// library then closes its end, and answers still queued may be discarded with it
			if c.Alive() {
				w.Fail("NOT_DROPPED", "the peer closed its direction behind the stream at %v but the library still holds the connection at %v%s", h.sentAt, w.Now(), h.ctx())
			} else {
				w.Probe("stream_delivered_before_peer_close_took_effect")
			}

			break
		}
		if sc.Second != 0 && h.g2Stage >= 1 {
			// the stream was answered up to its barrier (that is what started the second leg); the peer
			// then closed the connection itself
			break
		}
		if !c.Alive() {
			w.Fail("DROPPED", "the library closed the link at %v although no in-frame gap exceeded T8=%v and every length field was valid%s", c.EOFAt, sc.T8, h.ctx())

			return
		}
		if !h.hasBarrier() {
			w.Fail("STUCK", "the stream was fully delivered but the trailing Linktest.req was never answered (run ended: %s)%s", reason, h.ctx())

			return
		}
		if st := h.r.C.State(); st != hsms.SelectedState {
			w.Fail("STATE", "State() is %v after a stream that must keep the session Selected", st)

			return
		}
		// every Linktest.req of the stream was answered
		for i, f := range sc.Frames {
			if f.Kind == "linktest.req" {
				found := false
				for _, g := range c.Rx {
					if g.H.SType == refhsms.STLinktestRsp && g.H.Sys == f.H.Sys {
						found = true
					}
				}
				if !found {
					w.Fail("CONTROL", "Linktest.req #%d of the stream was not answered", i)

					return
				}
			}
		}
	case "t8", "length":
		if c.Alive() {
			w.Fail("NOT_DROPPED", "the link is still up at %v: it had to be dropped at %v (%s)%s", w.Now(), h.dropAt, h.fatalKind, h.ctx())

			return
		}
		if c.RST {
			return
		}
		// the instant the library closed its socket (the peer sees it later: queued responses and
		// the FIN cross the simulated network one segment per millisecond)
		lo, hi := h.dropAt, h.dropAt+time.Millisecond
		if at := c.L.A.ClosedAt; at < lo || at > hi {
			w.Fail("DROP_TIME", "the library closed the socket at %v; expected within [%v, %v] (%s, T8=%v)%s", at, lo, hi, h.fatalKind, sc.T8, h.ctx())

			return
		}
		if st := h.r.C.State(); st == hsms.SelectedState && sc.Second == 0 {
			w.Fail("STATE", "State() is still Selected after the link was dropped")

			return
		}
		if h.fatalKind == "length" {
			if !h.memTaken {
				w.Fail("HARNESS", "no allocation sample after the drop")

				return
			}
			claimed := binary.BigEndian.Uint32(sc.Frames[len(sc.Frames)-1].Raw[:4])
			if d := h.memAfter - h.memBefore; claimed > capLen && d > 4<<20 {
				w.Fail("ALLOC", "a frame claiming %d bytes made the process allocate %d bytes before the link was dropped", claimed, d)

				return
			}
			w.Probe("bad_length_dropped_without_allocation")
		} else {
			w.Probe("t8_drop_at_exact_time")
		}
	}
}

func clip(b []byte) []byte {
	if len(b) > 16 {
		return b[:16]
	}

	return b
}

func (h *harness) ctx() string {
	return fmt.Sprintf("\n  scenario: %v\n  arrivals: %v", h.describe(), h.arrive)
}
