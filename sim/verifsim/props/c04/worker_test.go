package c04

import (
	"testing"

	"github.com/arloliu/go-secs/v2/verifsim/core"
)

func TestWorker(t *testing.T) {
	core.WorkerMain(t, core.Property{ID: "C04", Configs: []string{"default"}, Build: Build})
}
