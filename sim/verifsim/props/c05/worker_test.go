package c05

import (
	"testing"

	"github.com/arloliu/go-secs/v2/verifsim/core"
)

// Build selects the engine by configuration.
func Build(config string) core.BuildFunc {
	switch config {
	case "actor":
		return BuildActor()
	case "e2e-faulty":
		return BuildE2E(true)
	case "e2e-secs1":
		return BuildE2ESECS1()
	default:
		return BuildE2E(false)
	}
}

func TestWorker(t *testing.T) {
	core.WorkerMain(t, core.Property{ID: "C05", Configs: []string{"actor", "e2e", "e2e-faulty", "e2e-secs1"}, Build: Build})
}
