package c05

// Engine B: real hsmsss connections end to end on the simulated network. The exact sequence of
// values of State() is recorded by an observer that runs right after every atomic write of the
// code under test (so no change can hide between two driver steps), and every change is checked
// against the E37 diagram AND attributed to a cause the harness knows about: a TCP connection that
// really came up, a select/deselect frame the peer really sent on the current connection, a link
// failure / timer expiry / Separate / refusal on the CURRENT connection, or an application Close.

import (
	"context"
	"errors"
	"fmt"
	"strings"
	"time"

	"github.com/arloliu/go-secs/v2/hsms"
	"github.com/arloliu/go-secs/v2/secs2"
	"github.com/arloliu/go-secs/v2/verifsim/core"
	"github.com/arloliu/go-secs/v2/verifsim/refhsms"
	"github.com/arloliu/go-secs/v2/verifsim/rig"
	"github.com/arloliu/go-secs/v2/verifsim/simhook"
	"github.com/arloliu/go-secs/v2/verifsim/simnet"
)

// how the peer treats the select of one generation
const (
	selPrompt = iota
	selHalfT7
	selTieT7
	selNever
	selRefuse
	nSel
)

// how a generation ends
const (
	endFIN = iota
	endRST
	endSeparate
	endWedgeRST // stall the library's writes, then reset: senders are caught mid-write
	endStay
	nEnd
)

var (
	selNames = []string{"prompt", "T7/2", "tie@T7", "never", "refuse"}
	endNames = []string{"fin", "rst", "separate", "wedge+rst", "stay"}
)

type genPlan struct {
	Sel        int
	Churn      int  // deselect/re-select cycles
	Pipelined  bool // churn frames in one segment
	Tie        int  // 0 none; else a targeted hold during the churn: role (supervisor/recv) and which atomic step
	EndsNS     bool // a final lone Deselect.req: the generation then dies by T7
	End        int
	EndDelay   time.Duration
	StallAfter time.Duration // gstall of senders caught in a write when the generation ends
	Orphans    []orphan      // unsolicited control responses the peer sends: none may move State()
}

// orphan is a control response with system bytes of no open transaction.
type orphan struct {
	At    time.Duration // after the connection came up
	SType byte
	B3    byte
}

type scenarioB struct {
	Active         bool
	Equip          bool
	T6, T7         time.Duration
	Backoff        time.Duration
	WriteTO        time.Duration
	Plans          []genPlan
	Senders        int
	CloseAt        time.Duration // first application Close
	CloseOnConnect int           // if > 0: the first Close is called while the k-th TCP connection attempt completes
	CloseOnOff     time.Duration
	Reopen         bool
	ReopenIn       time.Duration
	Close2In       time.Duration
	DialLat        []int // per dial attempt: latency in ms, or -1 refused
	// NotifyDelay: how long the application's state-change handler takes (0 = returns at once); with a
	// slow handler the close timeout is short, so Close can return (reporting the timeout) while
	// notifications are still queued — they must still all arrive
	NotifyDelay time.Duration
	CloseTO     time.Duration
	// WedgeData: right before the first Close the peer sends a data primary whose handler blocks until
	// WedgeFor after the Close call — past the (short) close timeout and past the reopen: the receive
	// goroutine the bounded Close had to abandon comes back to life inside the NEXT open cycle, where
	// nothing it does may move State()
	WedgeData bool
	WedgeFor  time.Duration
}

type gen struct {
	c           *refhsms.Conn
	idx         int
	plan        genPlan
	estFrames   int // select-establishing frames sent by the peer
	desFrames   int // Deselect.req sent by the peer
	nsToS       int
	sToNS       int
	ncToNS      int
	peerEnded   bool
	separate    bool
	refused     bool
	selReqAt    time.Duration // when the library's Select.req was seen (active)
	selAnswered bool
	model       hsms.ConnState // the peer-side model of the session on this connection
	scripted    bool
	settled     bool
	openedAt    time.Duration
	wedgedAt    time.Duration
	// writerStalledAt: a sender was withheld by the scheduler (gstall) inside a write for at least the
	// write timeout while this connection was the current or the newest one
	writerStalledAt time.Duration
}

type note struct {
	prev, next hsms.ConnState
	tick       int
	at         time.Duration
}

type harnessB struct {
	w  *core.World
	r  *rig.Rig
	sc scenarioB

	whens []*whenB
	gens  []*gen
	cur   *gen // generation the current not-NotConnected state belongs to

	last     hsms.ConnState
	nsSince  time.Duration
	tick     int
	notes    []note
	changes  int
	coalesce int

	closeCalled   bool
	closeStarted  bool
	wedged        bool
	closeTimedOut bool // Close reported the close timeout: the handlers had not drained when it returned
	inHandler     int
	peerDials     int
	closeCallAt   time.Duration
	closeRet      bool
	closeRetTick  int
	reopenCalled  bool
	openCycle     int
	finished      bool
	sendersDone   int
	stop          bool
	stallPending  time.Duration
}

type whenB struct {
	cond func() bool
	then func()
	done bool
}

func (h *harnessB) when(cond func() bool, then func()) {
	h.whens = append(h.whens, &whenB{cond: cond, then: then})
}

func (h *harnessB) poll() {
	h.w.TrackRoles([][2]string{{"select@hsms/supervisor.go", "supervisor"}, {"net.Read", "recv"}})
	for i := 0; i < len(h.whens); i++ {
		wn := h.whens[i]
		if !wn.done && wn.cond() {
			wn.done = true
			wn.then()
		}
	}
	if h.stallPending > 0 {
		// gstall: application senders woken out of a write on the dead connection are withheld while
		// teardown, reconnect and re-select proceed
		for _, g := range h.w.S.Parked() {
			if g.App && strings.HasPrefix(g.Site, "net.Write") && g.StallUntil == 0 {
				h.w.StallG(g, h.stallPending)
				if h.cur != nil && h.stallPending >= h.sc.WriteTO {
					// the withheld sender may already be inside a write on the NEXT connection (it holds that
					// connection's write lock and its write deadline keeps running): the write timeout is then a
					// legitimate end of that connection
					h.cur.writerStalledAt = h.w.Now()
					if n := len(h.gens); n > 0 {
						h.gens[n-1].writerStalledAt = h.w.Now()
					}
				}
			}
		}
	}
}

func genScenarioB(t *core.Tape, faulty bool) scenarioB {
	sc := scenarioB{}
	sc.Active = t.Choose("scn", 2) == 1
	sc.Equip = t.Choose("scn", 2) == 1
	sc.T7 = []time.Duration{300 * time.Millisecond, time.Second}[t.Choose("scn", 2)]
	sc.T6 = []time.Duration{2 * time.Second, 500 * time.Millisecond, 200 * time.Millisecond}[t.Choose("scn", 3)]
	sc.Backoff = []time.Duration{100 * time.Millisecond, time.Millisecond, 1}[t.Choose("scn", 3)]
	sc.WriteTO = []time.Duration{30 * time.Second, 400 * time.Millisecond}[t.Choose("scn", 2)]
	n := 1 + t.Choose("scn", 4)
	for i := 0; i < n; i++ {
		p := genPlan{}
		p.Sel = t.Weighted("scn", 6, 2, 2, 1, 1)
		if p.Sel == selRefuse && !sc.Active {
			p.Sel = selNever
		}
		p.Churn = t.Weighted("scn", 4, 2, 1, 1)
		p.Pipelined = t.Choose("scn", 2) == 1
		if t.Choose("scn", 2) == 1 {
			p.Tie = 1 + t.Choose("scn", 24)
		}
		p.EndsNS = t.Bias("scn", 1, 6)
		p.End = t.Weighted("scn", 3, 3, 2, 2, 1)
		if !faulty && p.End == endWedgeRST {
			p.End = endRST
		}
		p.EndDelay = time.Duration(t.Choose("scn", 40)) * 10 * time.Millisecond
		p.StallAfter = []time.Duration{0, 50 * time.Millisecond, 500 * time.Millisecond, 3 * time.Second}[t.Choose("scn", 4)]
		for k := t.Weighted("scn", 4, 2, 1); k > 0; k-- {
			o := orphan{At: time.Duration(t.Choose("scn", 120)) * 10 * time.Millisecond}
			switch t.Weighted("scn", 4, 1, 1, 1, 1) {
			case 0:
				o.SType = refhsms.STSelectRsp
			case 1:
				o.SType, o.B3 = refhsms.STSelectRsp, 1
			case 2:
				o.SType = refhsms.STDeselectRsp
			case 3:
				o.SType = refhsms.STLinktestRsp
			case 4:
				o.SType, o.B3 = refhsms.STRejectReq, 3
			}
			p.Orphans = append(p.Orphans, o)
		}
		sc.Plans = append(sc.Plans, p)
	}
	sc.Senders = t.Choose("scn", 3)
	if faulty && sc.Senders == 0 {
		sc.Senders = 1
	}
	sc.CloseAt = time.Duration(t.Choose("scn", 400)) * 10 * time.Millisecond
	if t.Bias("scn", 1, 3) {
		sc.CloseAt = 20 * time.Second // after the whole script
	}
	if t.Bias("scn", 1, 3) {
		// Close racing a TCP-up: the dial / accept completes while Close is being processed
		sc.CloseOnConnect = 1 + t.Choose("scn", 4)
		sc.CloseOnOff = []time.Duration{0, 0, time.Millisecond, 2 * time.Millisecond}[t.Choose("scn", 4)]
		sc.CloseAt = 20 * time.Second
	}
	sc.Reopen = t.Choose("scn", 2) == 1
	sc.ReopenIn = time.Duration(t.Choose("scn", 30)) * 10 * time.Millisecond
	sc.Close2In = time.Duration(50+t.Choose("scn", 200)) * 10 * time.Millisecond
	sc.CloseTO = 2 * time.Second
	if t.Bias("scn", 1, 4) {
		sc.NotifyDelay = []time.Duration{30 * time.Millisecond, 150 * time.Millisecond, 400 * time.Millisecond}[t.Choose("scn", 3)]
		sc.CloseTO = []time.Duration{2 * time.Second, 200 * time.Millisecond}[t.Choose("scn", 2)]
		sc.Reopen = false
	}
	if sc.Reopen && sc.NotifyDelay == 0 && t.Bias("scn", 1, 4) {
		sc.WedgeData = true
		sc.CloseTO = 200 * time.Millisecond
		sc.WedgeFor = sc.CloseTO + sc.ReopenIn + time.Duration(100+t.Choose("scn", 40)*10)*time.Millisecond
	}
	for i := 0; i < 12; i++ {
		l := t.Choose("scn", 4) * 5
		if t.Bias("scn", 1, 8) {
			l = -1
		}
		sc.DialLat = append(sc.DialLat, l)
	}

	return sc
}

// BuildE2E is engine B's scenario builder.
func BuildE2E(faulty bool) core.BuildFunc {
	return func(w *core.World) *core.Scenario {
		h := &harnessB{w: w}
		h.sc = genScenarioB(w.T, faulty)
		sc := h.sc
		wt := sc.WriteTO
		h.r = rig.New(w, rig.Opts{Active: sc.Active, Equip: sc.Equip, T3: 2 * time.Second, T6: sc.T6, T7: sc.T7, T5: time.Second,
			BackoffInit: sc.Backoff, BackoffMult: 2, CloseTimeout: sc.CloseTO, WriteTimeout: &wt, NoStateHandler: true, ConnectTimeout: time.Second})
		r := h.r
		r.P.AutoSelectRsp = -1
		r.P.AutoLinktest = true
		r.Log.OnWarn = func(msg string, kv []any) {
			if strings.Contains(msg, "coalesced") {
				h.coalesce++
			}
		}
		r.C.AddConnStateChangeHandler(func(prev, next hsms.ConnState) {
			h.tick++
			h.notes = append(h.notes, note{prev, next, h.tick, w.Now()})
			w.Logf("notify %v->%v", prev, next)
			if h.closeRet && !h.closeTimedOut {
				w.Fail("AFTER_CLOSE", "state-change notification %v->%v delivered after Close returned and before the next Open", prev, next)
			}
			if sc.NotifyDelay > 0 {
				h.inHandler++
				core.Sleep(sc.NotifyDelay)
				h.inHandler--
			}
		})
		r.N.DialPlan = func(attempt int, address string) simnet.DialOutcome {
			l := 0
			if attempt-1 < len(sc.DialLat) {
				l = sc.DialLat[attempt-1]
			}
			if l < 0 {
				w.Fault("dial-refused")

				return simnet.DialOutcome{Kind: 1}
			}

			if attempt == sc.CloseOnConnect {
				w.Probe("close_races_dial_completion")
				w.After(time.Duration(l)*time.Millisecond+sc.CloseOnOff, "app-close", func() { h.appClose(true) })
			}

			return simnet.DialOutcome{Latency: time.Duration(l) * time.Millisecond}
		}
		if sc.WedgeData {
			r.OnDeliver = func(m *hsms.DataMessage, ep hsms.SECS2Endpoint) {
				if m.Stream() == 6 && m.Function() == 99 && !h.wedged {
					h.wedged = true
					w.Fault("data-handler-blocks-across-close-and-reopen")
					core.Sleep(sc.WedgeFor)
					w.Logf("wedged data handler returns")
					w.Probe("abandoned_receive_goroutine_resumes_in_next_open_cycle")
				}
			}
		}
		r.P.OnOpen = h.onOpen
		r.P.OnFrame = h.onFrame
		r.P.OnEnd = func(c *refhsms.Conn) {}
		h.last = hsms.NotConnectedState
		simhook.Observer = h.observe
		w.AddMonitor(h.poll)
		h.openCycle = 1
		r.Open(hsms.OpenBackground)
		if !sc.Active {
			h.peerDialLoop()
		}
		for i := 0; i < sc.Senders; i++ {
			i := i
			w.Go(fmt.Sprintf("sender%d", i), func() { h.sender(i) })
		}
		w.After(sc.CloseAt, "app-close", func() { h.appClose(true) })

		return &core.Scenario{
			Desc:    h.describe(),
			Horizon: 90 * time.Second,
			Done:    func() bool { return h.finished && h.sendersDone == sc.Senders && h.inHandler == 0 && w.Idle() },
			Final:   h.final,
			Cleanup: func() { h.stop = true; r.Close() },
			Nontrivial: func() bool {
				return h.changes >= 2
			},
		}
	}
}

func (h *harnessB) describe() map[string]any {
	sc := h.sc
	var plans []string
	for _, p := range sc.Plans {
		plans = append(plans, fmt.Sprintf("sel=%s churn=%d pipe=%v tie=%d endsNS=%v end=%s+%v stall=%v", selNames[p.Sel], p.Churn, p.Pipelined, p.Tie, p.EndsNS, endNames[p.End], p.EndDelay, p.StallAfter))
	}

	return map[string]any{"engine": "e2e", "active": sc.Active, "equip": sc.Equip, "T6": sc.T6.String(), "T7": sc.T7.String(), "backoff": sc.Backoff.String(),
		"writeTimeout": sc.WriteTO.String(), "generations": plans, "senders": sc.Senders, "closeAt": sc.CloseAt.String(), "notifyDelay": sc.NotifyDelay.String(), "closeTimeout": sc.CloseTO.String(), "wedgedDataHandlerFor": sc.WedgeFor.String(), "closeOnConnect": sc.CloseOnConnect, "closeOnOff": sc.CloseOnOff.String(), "reopen": sc.Reopen, "dial": sc.DialLat}
}

func (h *harnessB) peerDialLoop() {
	w, r := h.w, h.r
	var tick func()
	tick = func() {
		if h.finished || h.stop {
			return
		}
		last := r.P.Last()
		if (last == nil || !last.Alive()) && r.N.Listening(rig.Addr) {
			h.peerDials++
			if h.peerDials == h.sc.CloseOnConnect {
				w.Probe("close_races_accept")
				w.After(h.sc.CloseOnOff, "app-close", func() { h.appClose(true) })
			}
			r.P.Connect(rig.Addr)
		}
		w.After(time.Duration(3+w.T.Choose("peer", 20))*time.Millisecond, "peer-dial-tick", tick)
	}
	w.After(0, "peer-dial-tick", tick)
}

func (h *harnessB) sender(i int) {
	defer func() { h.sendersDone++ }()
	n := 0
	for !h.finished && !h.stop && n < 60 {
		n++
		core.Sleep(time.Duration(20+h.w.T.Choose("app", 80)) * time.Millisecond)
		if h.finished || h.stop {
			return
		}
		ctx, cancel := context.WithTimeout(context.Background(), 3*time.Second)
		if h.w.T.Choose("app", 3) == 0 {
			_ = h.r.C.SendDataMessageAsync(ctx, 1, 3, false, secs2.A(fmt.Sprintf("a%d-%d", i, n)))
		} else {
			_, _ = h.r.C.SendDataMessage(ctx, 1, 1, true, secs2.A(fmt.Sprintf("s%d-%d", i, n)))
		}
		cancel()
	}
}

// ---- peer script (driver context)

func (h *harnessB) onOpen(c *refhsms.Conn) {
	g := &gen{c: c, idx: len(h.gens), model: hsms.NotSelectedState, openedAt: h.w.Now()}
	if g.idx < len(h.sc.Plans) {
		g.plan = h.sc.Plans[g.idx]
	} else {
		g.plan = genPlan{Sel: selPrompt, End: endStay}
	}
	h.gens = append(h.gens, g)
	h.w.Logf("gen %d opened plan sel=%s end=%s", g.idx, selNames[g.plan.Sel], endNames[g.plan.End])
	for i, o := range g.plan.Orphans {
		o, sys := o, 0x7E000000+uint32(g.idx)<<8+uint32(i)
		h.w.After(o.At, "peer-orphan", func() {
			if c.Alive() && !g.peerEnded {
				// system bytes of no transaction the library ever opened: the frame completes nothing
				h.w.Probe(fmt.Sprintf("orphan_control_response_stype%d_while_%v", o.SType, h.last))
				c.SendFrame(refhsms.Header{Session: 0xFFFF, B3: o.B3, SType: o.SType, Sys: sys}, nil)
			}
		})
	}
	if !h.sc.Active {
		// the peer originates the select
		switch g.plan.Sel {
		case selPrompt:
			h.w.After(time.Millisecond, "peer-select", func() { h.sendSelectReq(g) })
		case selHalfT7:
			h.w.After(h.sc.T7/2, "peer-select", func() { h.sendSelectReq(g) })
		case selTieT7:
			h.w.After(h.sc.T7-time.Millisecond, "peer-select", func() { h.sendSelectReq(g) })
		default:
			h.w.Fault("select-withheld")
		}
	}
}

func (h *harnessB) sendSelectReq(g *gen) {
	if !g.c.Alive() {
		return
	}
	g.estFrames++
	g.model = hsms.SelectedState
	g.c.SendFrame(refhsms.Header{Session: 0xFFFF, SType: refhsms.STSelectReq, Sys: h.r.P.NextSys()}, nil)
	h.afterEstablished(g)
}

func (h *harnessB) genOf(c *refhsms.Conn) *gen {
	for _, g := range h.gens {
		if g.c == c {
			return g
		}
	}

	return nil
}

func (h *harnessB) onFrame(c *refhsms.Conn, f refhsms.RxFrame) {
	g := h.genOf(c)
	if g == nil || f.H.PType != 0 {
		return
	}
	switch f.H.SType {
	case refhsms.STSelectReq:
		if g.selReqAt == 0 {
			g.selReqAt = h.w.Now()
		}
		answer := func(status byte) {
			if !c.Alive() || g.selAnswered {
				return
			}
			g.selAnswered = true
			if status == 0 {
				g.estFrames++
				g.model = hsms.SelectedState
			} else {
				g.refused = true
				h.w.Fault("select-refused")
			}
			c.SendFrame(refhsms.Header{Session: f.H.Session, B3: status, SType: refhsms.STSelectRsp, Sys: f.H.Sys}, nil)
			if status == 0 {
				h.afterEstablished(g)
			}
		}
		switch g.plan.Sel {
		case selPrompt:
			answer(0)
		case selHalfT7:
			d := h.sc.T7 / 2
			if h.sc.T6/2 < d {
				d = h.sc.T6 / 2
			}
			h.w.After(d, "peer-select-rsp", func() { answer(0) })
		case selTieT7:
			// the answer reaches the library exactly when its T7 (armed when TCP came up, 1 ms before
			// this frame arrived) expires — unless T6 is shorter, then exactly at T6
			d := h.sc.T7
			if h.sc.T6 < d {
				d = h.sc.T6
			}
			h.w.After(d-2*time.Millisecond, "peer-select-rsp", func() { answer(0) })
		case selRefuse:
			answer(2)
		default:
			h.w.Fault("select-withheld")
		}
	case refhsms.STData:
		if f.H.W() {
			c.SendFrame(refhsms.DataHeader(f.H.Session, f.H.Stream(), f.H.Function()+1, false, f.H.Sys), f.Body)
		}
	}
}

// afterEstablished runs the rest of the generation's script: churn, settle check, end.
func (h *harnessB) afterEstablished(g *gen) {
	if g.scripted {
		return
	}
	g.scripted = true
	w := h.w
	p := g.plan
	c := g.c
	var frames []refhsms.Header
	for i := 0; i < p.Churn; i++ {
		frames = append(frames, refhsms.Header{Session: 0xFFFF, SType: refhsms.STDeselectReq, Sys: h.r.P.NextSys()})
		frames = append(frames, refhsms.Header{Session: 0xFFFF, SType: refhsms.STSelectReq, Sys: h.r.P.NextSys()})
	}
	if p.EndsNS {
		frames = append(frames, refhsms.Header{Session: 0xFFFF, SType: refhsms.STDeselectReq, Sys: h.r.P.NextSys()})
	}
	barrier := h.r.P.NextSys()
	account := func(hd refhsms.Header) {
		if hd.SType == refhsms.STDeselectReq {
			g.desFrames++
			g.model = hsms.NotSelectedState
		} else {
			g.estFrames++
			g.model = hsms.SelectedState
		}
	}
	start := 3 * time.Millisecond
	if len(frames) > 0 && p.Tie > 0 {
		// a long preemption walked through the supervisor's (or the receive path's) next atomic steps
		// while the churn frames are processed: a commit lands inside the other side's read-modify-write
		role := []string{"supervisor", "recv"}[(p.Tie-1)%2]
		skip := (p.Tie - 1) / 2
		w.After(start-time.Millisecond, "arm-tie-hold", func() {
			w.HoldNth = append(w.HoldNth, &core.NthHold{Prefix: "atomic", Skip: skip, D: 3 * time.Millisecond, Label: role,
				Filter: func(g *simhook.G) bool { return w.Roles[g.ID] == role }})
		})
	}
	if p.Pipelined {
		w.After(start, "peer-churn", func() {
			if !c.Alive() {
				return
			}
			var stream []byte
			for _, hd := range frames {
				account(hd)
				stream = append(stream, refhsms.Frame(hd, nil)...)
			}
			stream = append(stream, refhsms.Frame(refhsms.Header{Session: 0xFFFF, SType: refhsms.STLinktestReq, Sys: barrier}, nil)...)
			c.SendRaw(stream, refhsms.Header{}, nil, true)
		})
	} else {
		for i, hd := range frames {
			hd := hd
			w.After(start+time.Duration(i)*2*time.Millisecond, "peer-churn", func() {
				if c.Alive() {
					account(hd)
					c.SendFrame(hd, nil)
				}
			})
		}
		w.After(start+time.Duration(len(frames))*2*time.Millisecond, "peer-barrier", func() {
			if c.Alive() {
				c.SendFrame(refhsms.Header{Session: 0xFFFF, SType: refhsms.STLinktestReq, Sys: barrier}, nil)
			}
		})
	}
	// settle check: when the barrier is answered every frame before it has been processed
	h.when(func() bool {
		for _, f := range c.Rx {
			if f.H.SType == refhsms.STLinktestRsp && f.H.Sys == barrier {
				return true
			}
		}

		return !c.Alive()
	}, func() {
		if !c.Alive() || g.peerEnded || h.closeCalled || g.settled || h.cur != g || c.L.A.ClosedAt >= 0 {
			return // this connection is no longer the current generation (dropped, closed, reopened)
		}
		g.settled = true
		if st := h.last; st != g.model && !(g.model == hsms.NotSelectedState && st == hsms.NotConnectedState) {
			w.Fail("SETTLE", "generation %d: every select/deselect frame has been processed (barrier answered) and the peer-side model says %v, but State() is %v (%d establishing frames, %d Deselect.req)",
				g.idx, g.model, st, g.estFrames, g.desFrames)

			return
		}
		w.Probe("settled_state_matches_model")
		if p.End == endStay {
			return
		}
		w.After(p.EndDelay, "peer-end", func() { h.endGen(g) })
	})
}

// watchT7: a NotSelected dwell that is still going on T7 after it began (the peer neither ended the
// connection nor was Close called) must have been ended by the T7 expiry — "each change takes effect
// exactly when its cause does" includes the cause that is a timer.
func (h *harnessB) watchT7() {
	w := h.w
	since, cycle, g := h.nsSince, h.openCycle, h.cur
	w.After(h.sc.T7+10*time.Millisecond, "t7-watch", func() {
		if w.Viol != nil || h.last != hsms.NotSelectedState || h.nsSince != since || h.openCycle != cycle || h.closeCalled || h.cur != g || g == nil || !g.c.Alive() || g.peerEnded || g.separate {
			return
		}
		w.Fail("T7_MISSED", "generation %d: State() has been NotSelected since %v and is still NotSelected at %v, T7 = %v: the T7 expiry never took the connection to NotConnected (%d establishing frames, %d Deselect.req on this connection)",
			g.idx, since, w.Now(), h.sc.T7, g.estFrames, g.desFrames)
	})
}

func (h *harnessB) endGen(g *gen) {
	c := g.c
	if !c.Alive() {
		return
	}
	w := h.w
	switch g.plan.End {
	case endFIN:
		g.peerEnded = true
		w.Fault("fin")
		c.L.FIN()
	case endRST:
		g.peerEnded = true
		w.Fault("rst")
		c.L.RST()
	case endSeparate:
		g.separate = true
		w.Fault("separate")
		c.SendFrame(refhsms.Header{Session: 0xFFFF, SType: refhsms.STSeparateReq, Sys: h.r.P.NextSys()}, nil)
	case endWedgeRST:
		// the library's writes stop draining: senders block inside Write under the write lock
		w.Fault("sndfull")
		g.wedgedAt = w.Now()
		c.L.SetCap(32)
		c.L.Stall(false, 0)
		w.After(time.Duration(100+w.T.Choose("peer", 300))*time.Millisecond, "peer-wedge-rst", func() {
			if !c.Alive() {
				return
			}
			g.peerEnded = true
			w.Fault("rst")
			if g.plan.StallAfter > 0 {
				h.stallPending = g.plan.StallAfter
				w.After(5*time.Millisecond, "gstall-window-end", func() { h.stallPending = 0 })
			}
			c.L.RST()
		})
	}
}

// ---- application lifecycle

func (h *harnessB) appClose(first bool) {
	w, r := h.w, h.r
	if h.finished || (first && h.closeStarted) {
		return
	}
	h.closeStarted = true
	w.Go("closer", func() {
		if first && h.sc.WedgeData && r.Selected() && h.cur != nil && h.cur.c != nil && h.cur.c.Alive() {
			h.cur.c.SendFrame(refhsms.DataHeader(0xFFFF, 6, 99, false, r.P.NextSys()), refhsms.ASCII("wedge"))
			core.Sleep(3 * time.Millisecond)
		}
		for {
			h.closeCalled = true
			h.closeCallAt = w.Now()
			w.Logf("app close call")
			w.Fault("app-close")
			err := r.C.Close()
			if errors.Is(err, hsms.ErrCloseTimeout) {
				// (a slow handler, or a sender the scheduler withheld inside the library: the bounded join
				// gave up — whether that is justified is C10's subject)
				h.closeTimedOut = true
				w.Probe("close_returned_before_handlers_drained")
			}
			if errors.Is(err, hsms.ErrNotOpen) {
				// Close won the race against the very first Open: nothing was open, nothing is closed
				h.closeCalled = false
				w.Probe("close_before_first_open")
				core.Sleep(50 * time.Millisecond)

				continue
			}

			break
		}
		h.closeRet = true
		h.tick++
		h.closeRetTick = h.tick
		w.Logf("app close returned")
		if st := r.C.State(); st != hsms.NotConnectedState {
			w.Fail("AFTER_CLOSE", "Close returned and State() is %v", st)

			return
		}
		if n := len(h.notes); n > 0 && h.coalesce == 0 && !h.closeTimedOut && h.notes[n-1].next != hsms.NotConnectedState {
			w.Fail("FINAL", "Close returned (handlers drained): the last notification is %v->%v but State() is NotConnected", h.notes[n-1].prev, h.notes[n-1].next)

			return
		}
		if first && h.sc.Reopen {
			core.Sleep(h.sc.ReopenIn)
			h.reopenCalled = true
			h.closeCalled, h.closeRet = false, false
			h.openCycle++
			w.Logf("app reopen")
			if err := r.C.Open(context.Background(), hsms.OpenBackground); err != nil {
				w.Fail("REOPEN", "Open after Close: %v", err)

				return
			}
			core.Sleep(h.sc.Close2In)
			h.closeCalled = true
			h.closeCallAt = w.Now()
			w.Fault("app-close")
			_ = r.C.Close()
			h.closeRet = true
			h.tick++
			h.closeRetTick = h.tick
			if st := r.C.State(); st != hsms.NotConnectedState {
				w.Fail("AFTER_CLOSE", "second Close returned and State() is %v", st)

				return
			}
		}
		core.Sleep(300 * time.Millisecond) // watch the closed connection: nothing may move or be notified
		h.finished = true
	})
}

// ---- the oracle at the instant of every change of State()

func (h *harnessB) observe() {
	st := h.r.C.State()
	if st == h.last {
		return
	}
	w := h.w
	from := h.last
	h.last = st
	h.changes++
	now := w.Now()
	w.Logf("STATE %v->%v by %s", from, st, simhook.CurrentID())
	if h.closeRet {
		w.Fail("AFTER_CLOSE", "State() changed %v->%v after Close returned", from, st)

		return
	}
	if !legalEdge(from, st) {
		w.Fail("EDGE", "State() changed %v->%v, not an edge of the E37 diagram", from, st)

		return
	}
	var lastGen *gen
	if n := len(h.gens); n > 0 {
		lastGen = h.gens[n-1]
	}
	switch {
	case from == nc && st == ns:
		// TCP up: a connection the harness knows about, used for the first time
		if lastGen == nil || lastGen.ncToNS > 0 {
			w.Fail("CAUSE", "State() went NotConnected->NotSelected but no new TCP connection exists (connections so far: %d)", len(h.gens))

			return
		}
		lastGen.ncToNS++
		h.cur = lastGen
		h.nsSince = now
		h.watchT7()
	case from == ns && st == sl:
		g := h.cur
		if g == nil {
			w.Fail("CAUSE", "NotSelected->Selected with no connection")

			return
		}
		g.nsToS++
		if g.nsToS > g.estFrames {
			w.Fail("CAUSE", "generation %d: State() entered Selected %d times but the peer sent only %d frames that establish a session (Select.req / Select.rsp status 0): an earlier select was replayed", g.idx, g.nsToS, g.estFrames)

			return
		}
	case from == sl && st == ns:
		g := h.cur
		if g == nil {
			w.Fail("CAUSE", "Selected->NotSelected with no connection")

			return
		}
		g.sToNS++
		h.nsSince = now
		h.watchT7()
		if g.sToNS > g.desFrames {
			w.Fail("CAUSE", "generation %d: State() left Selected for NotSelected %d times but the peer sent only %d Deselect.req", g.idx, g.sToNS, g.desFrames)

			return
		}
	case st == nc:
		g := h.cur
		if g == nil {
			w.Fail("CAUSE", "%v->NotConnected with no connection", from)

			return
		}
		cause := ""
		switch {
		case h.closeCalled:
			cause = "close"
		case g.peerEnded:
			cause = "peer-closed"
		case g.separate:
			cause = "separate"
		case g.refused:
			cause = "select-refused"
		case from == ns && now >= h.nsSince+h.sc.T7:
			cause = "T7"
		case h.sc.Active && !g.selAnswered && g.selReqAt > 0 && now >= g.selReqAt-time.Millisecond+h.sc.T6:
			cause = "T6-select"
		case h.sc.Active && g.plan.Sel == selTieT7 && now >= g.openedAt+h.sc.T6:
			cause = "T6-select-tie"
		case g.wedgedAt > 0 && now >= g.wedgedAt+h.sc.WriteTO:
			cause = "write-timeout"
		case g.writerStalledAt > 0 && now >= g.writerStalledAt+h.sc.WriteTO && g.c.L.ToPeer().BrokenOff >= 0:
			cause = "write-timeout-of-a-withheld-sender"
		}
		if cause == "" {
			w.Fail("SPURIOUS_DISCONNECT", "State() went %v->NotConnected at %v on generation %d, which is healthy: the peer neither closed, separated nor refused it, no Close was called, T7 is not due (NotSelected since %v, T7=%v)%s",
				from, now, g.idx, h.nsSince, h.sc.T7, map[bool]string{true: " — a Selected session must never be disconnected by T7", false: ""}[from == sl])

			return
		}
		w.Probe("disconnect_cause_" + cause)
		if g.plan.Sel == selTieT7 && (cause == "T7" || cause == "T6-select" || cause == "T6-select-tie") {
			w.Probe("t7_tie_lost_by_select")
		}
	}
	if st == sl && h.cur != nil && h.cur.plan.Sel == selTieT7 {
		w.Probe("t7_tie_won_by_select")
	}
}

func (h *harnessB) final(reason string) {
	w := h.w
	if !h.finished {
		w.Fail("BLOCKED", "the lifecycle script did not finish (reason %s): closeCalled=%v closeReturned=%v state=%v", reason, h.closeCalled, h.closeRet, h.last)

		return
	}
	// notifications: ordered chain, no self-transition, none after Close returned
	for i, n := range h.notes {
		if n.prev == n.next {
			w.Fail("CHAIN", "notification #%d is a self-transition %v->%v", i, n.prev, n.next)

			return
		}
		if i > 0 && h.coalesce == 0 && h.notes[i-1].next != n.prev {
			w.Fail("CHAIN", "notification #%d is %v->%v but the preceding one was %v->%v (no coalescing was reported)", i, n.prev, n.next, h.notes[i-1].prev, h.notes[i-1].next)

			return
		}
		if i == 0 && n.prev != nc {
			w.Fail("CHAIN", "first notification is %v->%v", n.prev, n.next)

			return
		}
	}
	if n := len(h.notes); n > 0 {
		if h.notes[n-1].tick > h.closeRetTick && !h.closeTimedOut {
			w.Fail("AFTER_CLOSE", "a state-change notification %v->%v was delivered after the final Close returned", h.notes[n-1].prev, h.notes[n-1].next)

			return
		}
		if h.notes[n-1].next != nc {
			w.Fail("FINAL", "everything drained: the last notification is %v->%v but State() is NotConnected", h.notes[n-1].prev, h.notes[n-1].next)

			return
		}
	}
	// (no notification at all is legal when the register went NotConnected -> NotSelected -> NotConnected
	// before the first one was due — e.g. a Close processed ahead of the queued TCP-up notification:
	// the implied last notified state, NotConnected, equals State(), which is checked next)
	if st := h.r.C.State(); st != nc {
		w.Fail("AFTER_CLOSE", "State() is %v at the end of the run, after Close", st)
	}
}
