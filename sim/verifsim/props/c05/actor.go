// Package c05 decides property C05: State() follows the SEMI E37 state diagram under every
// interleaving. Engine A (this file) is a white-box actor simulation of the supervisor with no
// goroutines at all; engine B (e2e.go) runs real connections end to end.
package c05

import (
	"fmt"
	"time"

	"github.com/arloliu/go-secs/v2/hsms"
	"github.com/arloliu/go-secs/v2/verifsim/core"
)

const (
	nc = hsms.NotConnectedState
	ns = hsms.NotSelectedState
	sl = hsms.SelectedState
)

func legalEdge(a, b hsms.ConnState) bool {
	switch {
	case a == nc && b == ns, a == ns && b == sl, a == sl && b == ns, a == ns && b == nc, a == sl && b == nc:
		return true
	}

	return false
}

type actorRun struct {
	w   *core.World
	t   *core.Tape
	v   *hsms.VerifSupervisor
	log []string

	genLive     bool // a TCP generation exists whose receive path can still act
	discPending int  // disconnect/T7 events injected and not yet processed
	closeReq    bool
	closeDone   bool
	t7Armed     bool
	selCount    int   // successful NotSelected->Selected commits so far
	t7ArmSel    int   // selCount when the currently armed T7 was armed (entry into NotSelected)
	t7Queue     []int // per injected, not yet processed evT7Timeout: the selCount its T7 was armed under
	notes       [][2]hsms.ConnState
	dropSeen    uint64
	nSeq        int
}

func evName(ev int) string {
	switch ev {
	case hsms.VerifEvTCPUp:
		return "evTCPUp"
	case hsms.VerifEvSelectAccepted:
		return "evSelectAccepted"
	case hsms.VerifEvSelectLost:
		return "evSelectLost"
	case hsms.VerifEvDisconnect:
		return "evDisconnect"
	case hsms.VerifEvClose:
		return "evClose"
	case hsms.VerifEvT7Timeout:
		return "evT7Timeout"
	}

	return fmt.Sprint("ev", ev)
}

func (a *actorRun) fail(class, format string, args ...any) {
	msg := fmt.Sprintf(format, args...)
	tail := a.log
	if len(tail) > 60 {
		tail = tail[len(tail)-60:]
	}
	a.w.Fail(class, "%s\n  actor steps: %v", msg, tail)
}

// commitStep performs one synchronous commit and checks cause attribution for it.
func (a *actorRun) commitStep(name string, from, to hsms.ConnState, do func() bool) {
	before := a.v.State()
	ok := do()
	after := a.v.State()
	a.log = append(a.log, fmt.Sprintf("%s=%v(%v->%v)", name, ok, before, after))
	if ok && to == hsms.SelectedState {
		a.selCount++
	}
	if ok {
		if before != from || after != to {
			a.fail("CAUSE", "%s reported a commit but the register went %v -> %v (want %v -> %v)", name, before, after, from, to)
		}
	} else if before != after {
		a.fail("CAUSE", "%s reported no commit but the register went %v -> %v", name, before, after)
	}
}

// runSequence plays one tape-drawn actor sequence against a fresh supervisor.
func (a *actorRun) runSequence() {
	t := a.t
	evCap := 1 + t.Choose("scn", 16)
	if t.Bias("scn", 3, 4) {
		evCap = 64
	}
	a.v = hsms.NewVerifSupervisor(evCap)
	v := a.v
	a.log = a.log[:0]
	a.genLive, a.discPending, a.closeReq, a.closeDone, a.t7Armed = false, 0, false, false, false
	a.selCount, a.t7ArmSel, a.t7Queue = 0, 0, a.t7Queue[:0]
	a.notes = a.notes[:0]
	a.dropSeen = 0
	steps := 1 + t.Choose("scn", 40)
	for i := 0; i < steps && a.w.Viol == nil; i++ {
		act := t.Weighted("scn", 5, 4, 3, 3, 2, 2, 8, 4, 1, 2)
		switch act {
		case 0: // new generation: TCP up (only when no generation is live and the last drop was processed)
			if a.genLive || a.closeReq || !v.Room(1) || v.State() != nc || a.discPending > 0 {
				continue
			}
			a.genLive, a.t7Armed, a.t7ArmSel = true, true, a.selCount
			a.commitStep("CommitConnected", nc, ns, v.CommitConnected)
		case 1:
			if !a.genLive || !v.Room(1) {
				continue
			}
			a.commitStep("CommitSelected", ns, sl, v.CommitSelected)
		case 2:
			if !a.genLive || !v.Room(1) {
				continue
			}
			before := v.State()
			a.commitStep("CommitSelectLost", sl, ns, v.CommitSelectLost)
			if before == sl {
				a.t7Armed, a.t7ArmSel = true, a.selCount
			}
		case 3: // involuntary drop from the receive path (or a write failure)
			if !a.genLive || !v.Room(1) {
				continue
			}
			v.InjectDisconnect()
			a.discPending++
			a.log = append(a.log, "inject(evDisconnect)")
		case 4: // T7 expiry (possibly stale: armed before the session was selected)
			if !a.genLive || !a.t7Armed || !v.Room(1) {
				continue
			}
			a.t7Armed = false
			a.t7Queue = append(a.t7Queue, a.t7ArmSel)
			v.InjectT7()
			a.discPending++
			a.log = append(a.log, "inject(evT7Timeout)")
		case 5: // application Close
			if a.closeReq || !v.Room(1) {
				continue
			}
			a.closeReq = true
			v.RequestClose()
			a.log = append(a.log, "requestClose")
		case 6, 8: // the supervisor's run loop handles one event (8: with a commit landing inside step)
			a.stepOne(act == 8)
		case 7: // notifier takes one notification
			a.popNote()
		case 9: // burst: the run loop drains everything
			for a.w.Viol == nil && v.QueueLen() > 0 {
				a.stepOne(false)
			}
		}
	}
	if a.w.Viol != nil {
		return
	}
	// drain: run loop then notifier
	for a.w.Viol == nil && v.QueueLen() > 0 {
		a.stepOne(false)
	}
	for a.w.Viol == nil && v.NotifyLen() > 0 {
		a.popNote()
	}
	if a.w.Viol != nil {
		return
	}
	// final equality: last notification's next == State() once everything drained
	if n := len(a.notes); n > 0 {
		if last := a.notes[n-1][1]; last != v.State() {
			a.fail("FINAL", "all events and notifications drained: last notification says %v but State() is %v", last, v.State())
		}
	} else if v.State() != nc {
		a.fail("FINAL", "no notification was ever delivered but State() is %v", v.State())
	}
}

func (a *actorRun) stepOne(tie bool) {
	v := a.v
	if v.QueueLen() == 0 {
		return
	}
	before := v.State()
	tieDesc := ""
	var tieBefore, tieAfter hsms.ConnState
	tieDone := false
	if tie && a.genLive && v.Room(1) {
		which := a.t.Choose("scn", 2)
		v.SetAfterLoadHook(func(ev int) {
			tieBefore = v.State()
			if which == 0 {
				ok := v.CommitSelected()
				if ok {
					a.selCount++
				}
				tieDesc = fmt.Sprintf("tie:CommitSelected=%v", ok)
			} else {
				ok := v.CommitSelectLost()
				if ok {
					a.t7Armed, a.t7ArmSel = true, a.selCount // (the transport arms a fresh T7 on every entry into NotSelected)
				}
				tieDesc = fmt.Sprintf("tie:CommitSelectLost=%v", ok)
			}
			tieAfter = v.State()
			tieDone = true
		})
	}
	wasClosed := v.Closed()
	notesBefore := v.NotifyLen()
	dropsBefore := v.Dropped()
	ev, ok := v.StepOne()
	v.SetAfterLoadHook(nil)
	if !ok {
		return
	}
	after := v.State()
	a.log = append(a.log, fmt.Sprintf("step(%s)%s:%v->%v", evName(ev), tieDesc, before, after))
	if ev == hsms.VerifEvDisconnect || ev == hsms.VerifEvT7Timeout {
		a.discPending--
	}
	armedUnder := -1
	if ev == hsms.VerifEvT7Timeout && len(a.t7Queue) > 0 {
		armedUnder = a.t7Queue[0]
		a.t7Queue = a.t7Queue[1:]
	}
	// the part of the change that belongs to step itself (excluding the tie actor's own commit)
	stepFrom, stepTo := before, after
	if tieDone {
		if tieBefore != before {
			a.fail("CAUSE", "state moved %v -> %v inside step(%s) before its own store", before, tieBefore, evName(ev))

			return
		}
		stepFrom = tieAfter
	}
	if wasClosed {
		if stepFrom != stepTo || v.NotifyLen() != notesBefore || v.Dropped() != dropsBefore {
			a.fail("AFTER_CLOSE", "step(%s) after the close was processed changed state %v -> %v or emitted a notification", evName(ev), stepFrom, stepTo)
		}

		return
	}
	if stepFrom != stepTo {
		if !legalEdge(stepFrom, stepTo) {
			a.fail("EDGE", "step(%s) moved the register %v -> %v, not an edge of the E37 diagram", evName(ev), stepFrom, stepTo)

			return
		}
		switch ev {
		case hsms.VerifEvTCPUp, hsms.VerifEvSelectAccepted, hsms.VerifEvSelectLost:
			// These events are only the queued NOTIFICATION of a commit that already took effect.
			a.fail("CAUSE", "processing the queued %s (notification of an earlier synchronous commit) moved the register %v -> %v: an earlier cause was replayed over a later one", evName(ev), stepFrom, stepTo)

			return
		case hsms.VerifEvT7Timeout:
			if stepFrom == sl {
				a.fail("T7_KILLED_SELECTED", "step(evT7Timeout) moved a Selected session to %v", stepTo)

				return
			}
			current := false // the T7 of the CURRENT dwell has expired too (its event is queued behind this one)
			for _, u := range a.t7Queue {
				if u == a.selCount {
					current = true
				}
			}
			if armedUnder >= 0 && a.selCount > armedUnder && !current {
				a.fail("T7_STALE_DISCONNECT", "step(evT7Timeout) disconnected the session (%v -> %v), but the T7 that expired had been armed %d selection(s) ago: the session reached Selected after it was armed (and was deselected again while the expiry sat in the queue)", stepFrom, stepTo, a.selCount-armedUnder)

				return
			}
			if !(stepFrom == ns && stepTo == nc) {
				a.fail("CAUSE", "step(evT7Timeout) moved %v -> %v", stepFrom, stepTo)

				return
			}
		case hsms.VerifEvDisconnect, hsms.VerifEvClose:
			if stepTo != nc {
				a.fail("CAUSE", "step(%s) moved %v -> %v", evName(ev), stepFrom, stepTo)

				return
			}
		}
	}
	if ev == hsms.VerifEvDisconnect && after != nc {
		a.fail("DISCONNECT_LOST", "step(evDisconnect) left the register at %v: the link is gone (the transport reported it), a commit that landed inside the step cannot keep the session alive — nothing will ever tear this generation down", after)

		return
	}
	if (ev == hsms.VerifEvDisconnect || ev == hsms.VerifEvT7Timeout || ev == hsms.VerifEvClose) && after == nc && stepFrom != nc {
		a.genLive = false
		a.t7Armed = false
	}
	if ev == hsms.VerifEvClose {
		a.closeDone = true
		a.genLive = false
		if after != nc {
			a.fail("AFTER_CLOSE", "the close was processed but State() is %v", after)
		}
	}
}

func (a *actorRun) popNote() {
	v := a.v
	prev, next, ok := v.PopNotify()
	if !ok {
		return
	}
	drops := v.Dropped()
	a.log = append(a.log, fmt.Sprintf("notify(%v->%v)", prev, next))
	if prev == next {
		a.fail("CHAIN", "self-transition notification %v -> %v", prev, next)

		return
	}
	if n := len(a.notes); n > 0 {
		if a.notes[n-1][1] != prev && drops == a.dropSeen {
			a.fail("CHAIN", "notification %v -> %v follows %v -> %v with no coalescing reported", prev, next, a.notes[n-1][0], a.notes[n-1][1])

			return
		}
	} else if prev != nc && drops == 0 {
		a.fail("CHAIN", "first notification is %v -> %v (must start from NotConnected)", prev, next)

		return
	}
	a.dropSeen = drops
	a.notes = append(a.notes, [2]hsms.ConnState{prev, next})
}

// BuildActor is engine A's scenario builder: many short actor sequences per run, no simulated
// time, no goroutines.
func BuildActor() core.BuildFunc {
	return func(w *core.World) *core.Scenario {
		a := &actorRun{w: w, t: w.T}
		n := 20 + w.T.Choose("scn", 100)
		ran := false

		return &core.Scenario{
			Desc:    map[string]any{"engine": "actor", "sequences": n},
			Horizon: time.Second,
			Done: func() bool {
				if !ran {
					ran = true
					for i := 0; i < n && w.Viol == nil; i++ {
						a.runSequence()
						a.nSeq++
					}
					w.Probes["actor_sequences"] += a.nSeq
				}

				return true
			},
			Nontrivial: func() bool { return a.nSeq > 0 },
		}
	}
}
