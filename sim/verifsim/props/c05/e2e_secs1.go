package c05

// Engine B over the SECS-I transport: a real secs1 connection against the SEMI E4 reference peer.
// SECS-I has no select handshake: a live line is committed NotConnected -> NotSelected -> Selected
// at once, there is no Selected -> NotSelected edge at all, and every -> NotConnected must have a
// cause on the current line (peer closed it, the peer went silent and a block send exhausted its
// retries, or the application closed).

import (
	"context"
	"errors"
	"fmt"
	"strings"
	"time"

	"github.com/arloliu/go-secs/v2/hsms"
	"github.com/arloliu/go-secs/v2/secs2"
	"github.com/arloliu/go-secs/v2/verifsim/core"
	"github.com/arloliu/go-secs/v2/verifsim/refe4"
	"github.com/arloliu/go-secs/v2/verifsim/rig"
	"github.com/arloliu/go-secs/v2/verifsim/simhook"
	"github.com/arloliu/go-secs/v2/verifsim/simnet"
)

type s1Plan struct {
	End   int // 0 fin, 1 rst, 2 silence, 3 stay
	After time.Duration
}

type s1Gen struct {
	l        *simnet.Link
	p        *refe4.Peer
	idx      int
	ncToNS   int
	nsToS    int
	ended    bool // the peer closed / reset the line
	silenced bool
}

type harnessS1 struct {
	w                  *core.World
	r                  *rig.Rig1
	act                bool
	eq                 bool
	plans              []s1Plan
	senders            int
	closeAt            time.Duration
	reopen             bool
	reopenIn, close2In time.Duration
	dial               []int

	gens                  []*s1Gen
	cur                   *s1Gen
	last                  hsms.ConnState
	notes                 []note
	tick                  int
	changes               int
	coalesce              int
	closeCalled, closeRet bool
	closeRetTick          int
	finished              bool
	stop                  bool
	sendersDone           int
	usedListeners         int
}

// BuildE2ESECS1 is the scenario builder of the SECS-I leg.
func BuildE2ESECS1() core.BuildFunc {
	return func(w *core.World) *core.Scenario {
		t := w.T
		h := &harnessS1{w: w, last: hsms.NotConnectedState}
		h.act, h.eq = t.Choose("scn", 2) == 1, t.Choose("scn", 2) == 1
		n := 1 + t.Choose("scn", 4)
		for i := 0; i < n; i++ {
			h.plans = append(h.plans, s1Plan{End: t.Weighted("scn", 3, 3, 2, 1), After: time.Duration(t.Choose("scn", 40)) * 10 * time.Millisecond})
		}
		h.senders = t.Choose("scn", 3)
		h.closeAt = time.Duration(t.Choose("scn", 300)) * 10 * time.Millisecond
		if t.Bias("scn", 1, 3) {
			h.closeAt = 15 * time.Second
		}
		h.reopen = t.Choose("scn", 2) == 1
		h.reopenIn = time.Duration(t.Choose("scn", 30)) * 10 * time.Millisecond
		h.close2In = time.Duration(50+t.Choose("scn", 200)) * 10 * time.Millisecond
		for i := 0; i < 12; i++ {
			l := t.Choose("scn", 4) * 5
			if t.Bias("scn", 1, 8) {
				l = -1
			}
			h.dial = append(h.dial, l)
		}
		const (
			t1 = 40 * time.Millisecond
			t2 = 100 * time.Millisecond
		)
		device := uint16(t.Choose("scn", 32768))
		h.r = rig.NewSECS1(w, rig.Opts1{Active: h.act, Equip: h.eq, Device: device, T1: t1, T2: t2, T3: time.Second, T4: time.Second, T5: 500 * time.Millisecond, Retry: 1,
			BackoffInit: []time.Duration{50 * time.Millisecond, time.Millisecond, 1}[t.Choose("scn", 3)], BackoffMult: 2, CloseTimeout: time.Second, ConnectTimeout: 500 * time.Millisecond})
		r := h.r
		r.Log.OnWarn = func(msg string, kv []any) {
			if strings.Contains(msg, "coalesced") {
				h.coalesce++
			}
		}
		r.C.AddConnStateChangeHandler(func(prev, next hsms.ConnState) {
			h.tick++
			h.notes = append(h.notes, note{prev, next, h.tick, w.Now()})
			w.Logf("notify %v->%v", prev, next)
			if h.closeRet {
				w.Fail("AFTER_CLOSE", "state-change notification %v->%v delivered after Close returned and before the next Open", prev, next)
			}
		})
		r.N.DialPlan = func(n int, address string) simnet.DialOutcome {
			l := 0
			if n-1 < len(h.dial) {
				l = h.dial[n-1]
			}
			if l < 0 {
				w.Fault("dial-refused")

				return simnet.DialOutcome{Kind: 1}
			}

			return simnet.DialOutcome{Latency: time.Duration(l) * time.Millisecond}
		}
		attach := func(l *simnet.Link) *refe4.Peer {
			p := refe4.New(w, !h.eq, t1, t2)
			p.L = l
			g := &s1Gen{l: l, p: p, idx: len(h.gens)}
			h.gens = append(h.gens, g)
			p.OnBlock = func(b refe4.RxBlock) {
				if b.Valid && b.H.E && b.H.W && !g.silenced {
					rh := refe4.Header{Device: device, R: !b.H.R, Stream: b.H.Stream, Func: b.H.Func + 1, Num: 1, E: true, Sys: b.H.Sys}
					p.SendBlock(refe4.Wire(rh, []byte{0x41, 0x01, 'y'}), nil, nil, nil)
				}
			}
			pl := s1Plan{End: 3}
			if g.idx < len(h.plans) {
				pl = h.plans[g.idx]
			}
			if pl.End != 3 {
				w.After(20*time.Millisecond+pl.After, "line-end", func() {
					if l.Closed || l.A.ClosedAt >= 0 {
						return
					}
					switch pl.End {
					case 0:
						g.ended = true
						w.Fault("fin")
						l.FIN()
					case 1:
						g.ended = true
						w.Fault("rst")
						l.RST()
					case 2:
						g.silenced = true
						p.Dead = true
						w.Fault("silence")
						l.Stall(true, 0)
						l.Stall(false, 0)
					}
				})
			}

			return p
		}
		r.N.OnConnect = func(l *simnet.Link) simnet.RawEnd { return attach(l) }
		if !h.act {
			var tick func()
			tick = func() {
				if h.stop || h.finished {
					return
				}
				if r.N.Listening(rig.Addr) && len(r.N.Listeners) > h.usedListeners {
					h.usedListeners = len(r.N.Listeners)
					// attach first (the peer object must exist when the first byte arrives)
					var p *refe4.Peer
					holder := &lateEnd{}
					if l := r.N.PeerConnect(rig.Addr, holder); l != nil {
						p = attach(l)
						holder.p = p
					}
				}
				w.After(time.Duration(3+w.T.Choose("peer", 20))*time.Millisecond, "peer-dial-tick", tick)
			}
			w.After(0, "peer-dial-tick", tick)
		}
		simhook.Observer = h.observe
		r.Open()
		for i := 0; i < h.senders; i++ {
			i := i
			w.Go(fmt.Sprintf("sender%d", i), func() { h.sender(i) })
		}
		w.After(h.closeAt, "app-close", h.appClose)
		var plans []string
		for _, p := range h.plans {
			plans = append(plans, fmt.Sprintf("%s+%v", []string{"fin", "rst", "silence", "stay"}[p.End], p.After))
		}

		return &core.Scenario{
			Desc:       map[string]any{"engine": "e2e-secs1", "active": h.act, "equip": h.eq, "generations": plans, "senders": h.senders, "closeAt": h.closeAt.String(), "reopen": h.reopen, "dial": h.dial},
			Horizon:    90 * time.Second,
			Done:       func() bool { return h.finished && h.sendersDone == h.senders && w.Idle() },
			Final:      h.final,
			Cleanup:    func() { h.stop = true; _ = r.C.Close() },
			Nontrivial: func() bool { return h.changes >= 2 },
		}
	}
}

// lateEnd forwards the raw-end callbacks to a peer that is created right after PeerConnect returns.
type lateEnd struct{ p *refe4.Peer }

func (e *lateEnd) OnData(l *simnet.Link, b []byte) {
	if e.p != nil {
		e.p.OnData(l, b)
	}
}

func (e *lateEnd) OnEOF(l *simnet.Link) {
	if e.p != nil {
		e.p.OnEOF(l)
	}
}

func (e *lateEnd) OnRST(l *simnet.Link) {
	if e.p != nil {
		e.p.OnRST(l)
	}
}

func (h *harnessS1) sender(i int) {
	defer func() { h.sendersDone++ }()
	for n := 0; !h.finished && !h.stop && n < 80; n++ {
		core.Sleep(time.Duration(20+h.w.T.Choose("app", 80)) * time.Millisecond)
		if h.finished || h.stop {
			return
		}
		_, _ = h.r.C.SendDataMessage(context.Background(), 1, 1, h.w.T.Choose("app", 2) == 0, secs2.A(fmt.Sprintf("s%d-%d", i, n)))
	}
}

func (h *harnessS1) appClose() {
	w, r := h.w, h.r
	w.Go("closer", func() {
		for {
			h.closeCalled = true
			w.Fault("app-close")
			err := r.C.Close()
			if errors.Is(err, hsms.ErrNotOpen) {
				h.closeCalled = false
				core.Sleep(50 * time.Millisecond)

				continue
			}

			break
		}
		h.closeRet = true
		h.tick++
		h.closeRetTick = h.tick
		if st := r.C.State(); st != hsms.NotConnectedState {
			w.Fail("AFTER_CLOSE", "Close returned and State() is %v", st)

			return
		}
		if h.reopen {
			core.Sleep(h.reopenIn)
			h.closeCalled, h.closeRet = false, false
			if err := r.C.Open(context.Background(), hsms.OpenBackground); err != nil {
				w.Fail("REOPEN", "Open after Close: %v", err)

				return
			}
			core.Sleep(h.close2In)
			h.closeCalled = true
			w.Fault("app-close")
			_ = r.C.Close()
			h.closeRet = true
			h.tick++
			h.closeRetTick = h.tick
			if st := r.C.State(); st != hsms.NotConnectedState {
				w.Fail("AFTER_CLOSE", "second Close returned and State() is %v", st)

				return
			}
		}
		core.Sleep(300 * time.Millisecond)
		h.finished = true
	})
}

func (h *harnessS1) observe() {
	st := h.r.C.State()
	if st == h.last {
		return
	}
	w := h.w
	from := h.last
	h.last = st
	h.changes++
	w.Logf("STATE %v->%v by %s", from, st, simhook.CurrentID())
	if h.closeRet {
		w.Fail("AFTER_CLOSE", "State() changed %v->%v after Close returned", from, st)

		return
	}
	if !legalEdge(from, st) {
		w.Fail("EDGE", "State() changed %v->%v, not an edge of the E37 diagram", from, st)

		return
	}
	var lastGen *s1Gen
	if n := len(h.gens); n > 0 {
		lastGen = h.gens[n-1]
	}
	switch {
	case from == nc && st == ns:
		if lastGen == nil || lastGen.ncToNS > 0 {
			w.Fail("CAUSE", "SECS-I: NotConnected->NotSelected but no new line exists (%d lines so far)", len(h.gens))

			return
		}
		lastGen.ncToNS++
		h.cur = lastGen
	case from == ns && st == sl:
		if h.cur == nil || h.cur.nsToS > 0 {
			w.Fail("CAUSE", "SECS-I: a second NotSelected->Selected on one line (there is no select handshake to repeat)")

			return
		}
		h.cur.nsToS++
	case from == sl && st == ns:
		w.Fail("CAUSE", "SECS-I: State() went Selected->NotSelected; the transport has no deselect")

		return
	case st == nc:
		g := h.cur
		if g == nil {
			w.Fail("CAUSE", "%v->NotConnected with no line", from)

			return
		}
		switch {
		case h.closeCalled:
			w.Probe("secs1_disconnect_cause_close")
		case g.ended:
			w.Probe("secs1_disconnect_cause_peer-closed")
		case g.silenced:
			w.Probe("secs1_disconnect_cause_send-retries-exhausted")
		default:
			w.Fail("SPURIOUS_DISCONNECT", "SECS-I: State() went %v->NotConnected at %v on line %d, which is healthy (the peer neither closed nor went silent, no Close was called)", from, w.Now(), g.idx)

			return
		}
	}
}

func (h *harnessS1) final(reason string) {
	w := h.w
	if !h.finished {
		w.Fail("BLOCKED", "the lifecycle script did not finish (reason %s): closeCalled=%v closeReturned=%v state=%v", reason, h.closeCalled, h.closeRet, h.last)

		return
	}
	for i, n := range h.notes {
		if n.prev == n.next {
			w.Fail("CHAIN", "notification #%d is a self-transition %v->%v", i, n.prev, n.next)

			return
		}
		if i > 0 && h.coalesce == 0 && h.notes[i-1].next != n.prev {
			w.Fail("CHAIN", "notification #%d is %v->%v but the preceding one was %v->%v (no coalescing was reported)", i, n.prev, n.next, h.notes[i-1].prev, h.notes[i-1].next)

			return
		}
		if i == 0 && n.prev != nc {
			w.Fail("CHAIN", "first notification is %v->%v", n.prev, n.next)

			return
		}
	}
	if n := len(h.notes); n > 0 {
		if h.notes[n-1].tick > h.closeRetTick {
			w.Fail("AFTER_CLOSE", "a state-change notification was delivered after the final Close returned")

			return
		}
		if h.notes[n-1].next != nc {
			w.Fail("FINAL", "everything drained: the last notification is %v->%v but State() is NotConnected", h.notes[n-1].prev, h.notes[n-1].next)

			return
		}
	}
	if st := h.r.C.State(); st != nc {
		w.Fail("AFTER_CLOSE", "State() is %v at the end of the run, after Close", st)
	}
}
