// Package c20 decides property C20: connection metrics conserve — the in-flight gauge is never
// negative and is zero at every quiescent point, the data-sent / data-received counters match the
// wire, each send outcome moves exactly the counters documented for it, and the reconnecting gauge
// is never negative, positive while a reconnect loop runs and zero at quiescent Selected or closed
// points.
package c20

import (
	"context"
	"encoding/binary"
	"errors"
	"fmt"
	"time"

	"github.com/arloliu/go-secs/v2/hsms"
	"github.com/arloliu/go-secs/v2/secs2"
	"github.com/arloliu/go-secs/v2/verifsim/core"
	"github.com/arloliu/go-secs/v2/verifsim/refhsms"
	"github.com/arloliu/go-secs/v2/verifsim/rig"
	"github.com/arloliu/go-secs/v2/verifsim/simhook"
	"github.com/arloliu/go-secs/v2/verifsim/simnet"
)

const (
	kW = iota
	kNoW
	kAsync
	kForward
	kReply
	nKinds
)

var kindNames = []string{"SendDataMessage(W)", "SendDataMessage(!W)", "SendDataMessageAsync", "ForwardDataMessage", "ReplyDataMessage"}

// peer behaviour for a W-bit primary
const (
	pReply = iota
	pReject
	pNever
	pLate
	nPeer
)

const (
	fNone = iota
	fFIN
	fRST
	fWedge // write wedge until the write timeout
	fRefusedRedial
	fSelectSilent // RST, and the next connection's Select.req is never answered: T6 ends it, the one after is healthy
	nF
)

var faultNames = []string{"none", "fin", "rst", "wedge", "rst+refused-redials", "rst+select-unanswered"}

type scenario struct {
	Active      bool
	Equip       bool
	ColdStart   int // active: refused dials before the first connect succeeds
	T3          time.Duration
	Phases      int
	Senders     int
	PerPhase    int
	Faults      []int // fault injected during phase i (fNone = none)
	FaultAt     []time.Duration
	PeerMix     []int
	Unsolicited int  // peer primaries per phase
	Validate    bool // session-id validation on
	Foreign     int  // 1 in Foreign unsolicited primaries carries another session id (0 = none)
	CloseEnd    bool
}

type call struct {
	Kind  int
	Err   error
	Reply bool
	Done  bool
	Phase int
}

type harness struct {
	w  *core.World
	r  *rig.Rig
	sc scenario

	calls    []*call
	inCall   int
	phase    int
	arrived  int
	released int
	checks   int
	finished bool
	stop     bool
	closed   bool
	closing  bool
	opened   bool

	last            hsms.ConnState
	leftSelAt       []time.Duration // instants State() left Selected
	finBehind       map[*refhsms.Conn]bool
	loopSince       time.Duration   // >=0: a reconnect loop must be running since then; -1: none expected
	usedListeners   int
	refuse          int
	silentNext      bool
	listenersAtLoop int
}

func genScenario(t *core.Tape, faulty bool) scenario {
	sc := scenario{}
	sc.Active = t.Choose("scn", 2) == 1
	sc.Equip = t.Choose("scn", 3) == 2
	sc.T3 = []time.Duration{300 * time.Millisecond, 120 * time.Millisecond}[t.Choose("scn", 2)]
	sc.Phases = 2 + t.Choose("scn", 4)
	sc.Senders = 1 + t.Choose("scn", 4)
	sc.PerPhase = 1 + t.Choose("scn", 5)
	for i := 0; i < sc.Phases; i++ {
		f := fNone
		if faulty && t.Choose("scn", 2) == 1 {
			f = 1 + t.Choose("scn", nF-1)
		}
		if (f == fRefusedRedial || f == fSelectSilent) && !sc.Active {
			f = fRST
		}
		sc.Faults = append(sc.Faults, f)
		sc.FaultAt = append(sc.FaultAt, time.Duration(t.Choose("scn", 20))*10*time.Millisecond)
	}
	for i := 0; i < 8; i++ {
		sc.PeerMix = append(sc.PeerMix, t.Weighted("scn", 6, 2, 2, 2))
	}
	sc.Unsolicited = t.Choose("scn", 4)
	sc.Validate = t.Choose("scn", 3) == 2
	sc.Foreign = []int{0, 2, 3}[t.Choose("scn", 3)]
	if faulty && sc.Active && t.Choose("scn", 3) == 0 {
		sc.ColdStart = 1 + t.Choose("scn", 3)
	}
	sc.CloseEnd = t.Choose("scn", 2) == 1

	return sc
}

// Build returns the scenario builder.
func Build(config string) core.BuildFunc {
	switch config {
	case "secs1":
		return buildSECS1(false)
	case "secs1-faulty":
		return buildSECS1(true)
	}

	return func(w *core.World) *core.Scenario {
		h := &harness{w: w, loopSince: -1, finBehind: map[*refhsms.Conn]bool{}}
		h.sc = genScenario(w.T, config == "faulty")
		sc := h.sc
		wto := 250 * time.Millisecond
		h.r = rig.New(w, rig.Opts{TraceTraffic: w.T.Choose("trace", 4) == 0, Active: sc.Active, Equip: sc.Equip, T3: sc.T3, T5: 300 * time.Millisecond, T6: 300 * time.Millisecond, T7: 2 * time.Second, T8: time.Second,
			BackoffInit: 30 * time.Millisecond, BackoffMult: 2, CloseTimeout: time.Second, WriteTimeout: &wto, AsyncErrHandler: true, ValidateSession: sc.Validate})
		r := h.r
		r.N.EOFWithData = w.T.Choose("trace", 2) == 1
		r.N.KeepLog = true
		r.P.AutoSelectRsp = 0
		r.P.AutoLinktest = true
		h.refuse = sc.ColdStart
		r.N.DialPlan = func(n int, address string) simnet.DialOutcome {
			if h.refuse > 0 {
				h.refuse--
				w.Fault("dial-refused")
				if n == 1 {
					h.loopSince = w.Now() // cold start: the background retry loop takes over
				}

				return simnet.DialOutcome{Kind: 1}
			}

			return simnet.DialOutcome{}
		}
		r.P.OnOpen = func(c *refhsms.Conn) {
			if !sc.Active {
				c.SelectReq()
			}
			if h.silentNext {
				// this connection's Select.req stays unanswered; the library's T6 ends it
				h.silentNext = false
				r.P.AutoSelectRsp = -1
				w.Fault("select-unanswered")
				var watch func()
				watch = func() {
					if !c.Alive() || c.L.A.ClosedAt >= 0 || h.stop {
						r.P.AutoSelectRsp = 0

						return
					}
					w.After(5*time.Millisecond, "silent-conn-watch", watch)
				}
				watch()
			}
		}
		r.P.OnFrame = h.onFrame
		h.last = hsms.NotConnectedState
		simhook.Observer = h.observe
		w.AddMonitor(h.monitor)
		h.opened = true
		r.Open(hsms.OpenBackground)
		if !sc.Active {
			h.peerDialLoop()
		}
		for i := 0; i < sc.Senders; i++ {
			i := i
			w.Go(fmt.Sprintf("s%d", i), func() { h.sender(i) })
		}

		return &core.Scenario{
			Desc:       h.describe(),
			Horizon:    120 * time.Second,
			Done:       func() bool { return h.finished && w.Idle() },
			Final:      h.final,
			Cleanup:    func() { h.stop = true; r.Close() },
			Nontrivial: func() bool { return len(h.calls) > 0 && h.checks > 0 },
		}
	}
}

func (h *harness) describe() map[string]any {
	sc := h.sc
	var fs []string
	for i, f := range sc.Faults {
		fs = append(fs, fmt.Sprintf("%s@%v", faultNames[f], sc.FaultAt[i]))
	}

	return map[string]any{"active": sc.Active, "equip": sc.Equip, "coldStartRefusals": sc.ColdStart, "T3": sc.T3.String(), "phases": sc.Phases, "senders": sc.Senders, "sendsPerPhase": sc.PerPhase,
		"faults": fs, "peerMix": sc.PeerMix, "unsolicitedPerPhase": sc.Unsolicited, "validateSession": sc.Validate, "foreignSession1in": sc.Foreign, "closeAtEnd": sc.CloseEnd}
}

func (h *harness) peerDialLoop() {
	w, r := h.w, h.r
	var tick func()
	tick = func() {
		if h.stop || h.finished {
			return
		}
		if r.N.Listening(rig.Addr) && len(r.N.Listeners) > h.usedListeners {
			h.usedListeners = len(r.N.Listeners)
			r.P.Connect(rig.Addr)
		}
		w.After(5*time.Millisecond, "peer-dial-tick", tick)
	}
	w.After(0, "peer-dial-tick", tick)
}

func (h *harness) onFrame(c *refhsms.Conn, f refhsms.RxFrame) {
	if f.H.PType != 0 || f.H.SType != refhsms.STData || !f.H.W() {
		return
	}
	if f.H.Stream() == 9 {
		return
	}
	switch h.sc.PeerMix[int(f.H.Sys)%len(h.sc.PeerMix)] {
	case pReply:
		c.SendFrame(refhsms.DataHeader(f.H.Session, f.H.Stream(), f.H.Function()+1, false, f.H.Sys), f.Body)
	case pReject:
		c.SendFrame(refhsms.Header{Session: f.H.Session, B2: 0, B3: byte(1 + h.w.T.Choose("peer", 6)), SType: refhsms.STRejectReq, Sys: f.H.Sys}, nil)
		h.w.Probe("peer_reject")
	case pLate:
		h.w.After(h.sc.T3+20*time.Millisecond, "late-reply", func() {
			if c.Alive() {
				c.SendFrame(refhsms.DataHeader(f.H.Session, f.H.Stream(), f.H.Function()+1, false, f.H.Sys), f.Body)
			}
		})
	}
}

// ---- exact sign invariants, evaluated right after every atomic write of the library

func (h *harness) observe() {
	m := h.r.C.Metrics()
	if v := m.DataMsgInflightCount(); v < 0 {
		h.w.Fail("NEGATIVE", "the in-flight gauge is %d", v)
	}
	if v := m.Reconnecting(); v < 0 {
		h.w.Fail("NEGATIVE", "the reconnecting gauge is %d", v)
	}
	st := h.r.C.State()
	if st != h.last {
		now := h.w.Now()
		if h.last == hsms.SelectedState {
			h.leftSelAt = append(h.leftSelAt, now)
		}
		if st == hsms.NotConnectedState && !h.closing && !h.closed {
			h.loopSince = now // an involuntary drop: the reaction starts the reconnect loop
			h.listenersAtLoop = len(h.r.N.Listeners)
		}
		if st != hsms.NotConnectedState {
			h.loopSince = -1
		}
		h.last = st
	}
}

func (h *harness) monitor() {
	// the reconnecting gauge is positive while a reconnect loop runs (passive: the loop ends as soon as
	// it listens again, while State() stays NotConnected until a peer arrives)
	if !h.sc.Active && h.loopSince >= 0 && len(h.r.N.Listeners) > h.listenersAtLoop {
		h.loopSince = -1
	}
	if h.loopSince >= 0 && !h.closing && !h.closed && h.w.Now() > h.loopSince && h.r.C.State() == hsms.NotConnectedState {
		if g := h.r.C.Metrics().Reconnecting(); g < 1 {
			h.w.Fail("RECONNECTING", "the connection has been NotConnected and retrying since %v (now %v) but Reconnecting() = %d", h.loopSince, h.w.Now(), g)

			return
		}
		h.w.Probe("reconnecting_positive_while_retrying")
	}
	// phase barrier: everyone has finished the phase's sends and the line is quiet
	if h.arrived == h.sc.Senders && h.released < h.phase+1 && h.inCall == 0 {
		if !h.quiet() {
			return
		}
		h.quiescent(fmt.Sprintf("end of phase %d", h.phase))
		h.phase++
		h.arrived = 0
		h.released = h.phase
		if h.phase >= h.sc.Phases {
			h.finish()

			return
		}
		h.armFault(h.phase)
	}
}

// quiet: nothing in flight on the wire, nothing unread, the session is Selected and stable.
func (h *harness) quiet() bool {
	c := h.r.P.Last()
	if c == nil || !c.Alive() || !h.r.Selected() {
		return false
	}
	if c.L.ToLib().InFlight() != 0 || c.L.ToLib().Unread() != 0 || c.L.ToPeer().InFlight() != 0 {
		return false
	}

	return h.w.S.NumParked() == 0
}

func (h *harness) armFault(p int) {
	w := h.w
	f := h.sc.Faults[p]
	if f == fNone {
		return
	}
	w.After(h.sc.FaultAt[p], "fault", func() {
		c := h.r.P.Last()
		if c == nil || !c.Alive() {
			return
		}
		switch f {
		case fFIN:
			w.Fault("fin")
			if h.r.Selected() && w.T.Choose("peer", 2) == 0 {
				// one more data frame with the close right behind it: it was sent while Selected and is read
				// before the end of the stream is, so it counts — even when the last bytes come with io.EOF
				c.SendFrame(refhsms.DataHeader(0xFFFF, 6, 11, false, h.r.P.NextSys()), refhsms.ASCII("last"))
				h.finBehind[c] = true
				w.Probe("data_frame_with_the_close_right_behind_it")
			}
			c.L.FIN()
		case fRST:
			w.Fault("rst")
			c.L.RST()
		case fWedge:
			w.Fault("sndfull")
			c.L.SetCap(30)
			c.L.Stall(false, 0)
			for i := 0; i < 4; i++ {
				c.SendFrame(refhsms.Header{Session: 0xFFFF, SType: refhsms.STLinktestReq, Sys: h.r.P.NextSys()}, nil)
			}
		case fRefusedRedial:
			w.Fault("rst")
			h.refuse = 1 + w.T.Choose("peer", 3)
			c.L.RST()
		case fSelectSilent:
			w.Fault("rst")
			h.silentNext = true
			c.L.RST()
		}
	})
}

func (h *harness) sender(si int) {
	w := h.w
	C := h.r.C
	for p := 0; p < h.sc.Phases; p++ {
		for h.released < p && !h.stop {
			core.Sleep(2 * time.Millisecond)
		}
		if p == 0 {
			// first phase: wait for the session
			for !h.r.Selected() && !h.stop {
				core.Sleep(2 * time.Millisecond)
			}
			if si == 0 {
				h.armFault(0)
			}
		}
		for i := 0; i < h.sc.PerPhase && !h.stop; i++ {
			core.Sleep(time.Duration(1+w.T.Choose("app", 40)) * time.Millisecond)
			kind := w.T.Weighted("app", 5, 2, 3, 1, 1)
			c := &call{Kind: kind, Phase: p}
			h.calls = append(h.calls, c)
			h.inCall++
			ctx := context.Background()
			var cancel context.CancelFunc
			if w.T.Choose("app", 5) == 0 {
				ctx, cancel = context.WithTimeout(ctx, time.Duration(20+w.T.Choose("app", 200))*time.Millisecond)
			}
			tok := fmt.Sprintf("t%d-%d-%d", si, p, i)
			sys := [4]byte{0x62, byte(si), byte(p), byte(i)}
			var err error
			var rep *hsms.DataMessage
			switch kind {
			case kW:
				rep, err = C.SendDataMessage(ctx, 1, 1, true, secs2.A(tok))
			case kNoW:
				_, err = C.SendDataMessage(ctx, 1, 3, false, secs2.A(tok))
			case kAsync:
				err = C.SendDataMessageAsync(ctx, 1, 5, false, secs2.A(tok))
			case kForward:
				m, _ := hsms.NewDataMessage(4, 1, false, 0xFFFF, sys, secs2.A(tok))
				err = C.ForwardDataMessage(ctx, m)
			case kReply:
				prim, _ := hsms.NewDataMessage(3, 1, true, 0xFFFF, sys, secs2.A("p"))
				err = C.ReplyDataMessage(ctx, prim, secs2.A(tok))
			}
			if cancel != nil {
				cancel()
			}
			c.Err, c.Reply, c.Done = err, rep != nil, true
			h.inCall--
			w.Logf("call %s %s err=%v", tok, kindNames[kind], err)
		}
		// unsolicited primaries from the peer (sender 0 asks for them so they fall inside the phase)
		if si == 0 {
			if pc := h.r.P.Last(); pc != nil && pc.Alive() && h.r.Selected() {
				for k := 0; k < h.sc.Unsolicited; k++ {
					sess := uint16(0xFFFF)
					if h.sc.Foreign > 0 && w.T.Choose("peer", h.sc.Foreign) == 0 {
						// a well-formed data frame of another session: received and counted whatever the
						// validation setting does with it afterwards (S9F1 when validating)
						sess = uint16(1 + w.T.Choose("peer", 0x7FFE))
						w.Probe("foreign_session_data_frame")
					}
					pc.SendFrame(refhsms.DataHeader(sess, 6, 11, false, h.r.P.NextSys()), refhsms.ASCII("evt"))
				}
			}
		}
		h.arrived++
	}
}

func (h *harness) finish() {
	w := h.w
	if !h.sc.CloseEnd {
		h.finished = true

		return
	}
	w.Go("closer", func() {
		h.closing = true
		_ = h.r.C.Close()
		h.closed = true
		core.Sleep(50 * time.Millisecond)
		m := h.r.C.Metrics()
		if v := m.Reconnecting(); v != 0 {
			w.Fail("RECONNECTING", "Reconnecting() = %d after Close", v)
		}
		if v := m.DataMsgInflightCount(); v != 0 {
			w.Fail("INFLIGHT", "the in-flight gauge is %d after Close", v)
		}
		h.finished = true
	})
}

// ---- the ledgers

// wireDataFrames parses the byte log of everything the library wrote on one connection and
// returns the number of complete data frames; ok=false when the stream cannot be trusted (a failed
// write tore a frame).
func wireDataFrames(p *simnet.Pipe) (n int, ok bool) {
	b := p.WLog
	if p.BrokenOff >= 0 && p.BrokenOff < len(b) {
		return 0, false
	}
	for len(b) >= 14 {
		l := int(binary.BigEndian.Uint32(b[:4]))
		if l < 10 || len(b) < 4+l {
			break
		}
		if b[8] == 0 && b[9] == 0 {
			n++
		}
		b = b[4+l:]
	}

	return n, p.BrokenOff < 0 || len(b) == 0
}

// quiescent evaluates the conservation laws at a point where no call is in progress, nothing is
// on the wire, and the session is Selected.
func (h *harness) quiescent(where string) {
	w, r := h.w, h.r
	m := r.C.Metrics()
	h.checks++
	if v := m.DataMsgInflightCount(); v != 0 {
		w.Fail("INFLIGHT", "%s (quiescent: no call in progress, wire idle): the in-flight gauge is %d", where, v)

		return
	}
	if v := m.Reconnecting(); v != 0 {
		w.Fail("RECONNECTING", "%s (quiescent, Selected): Reconnecting() = %d", where, v)

		return
	}
	// ---- data-sent counter == complete data frames the library put on the wire
	wire, trusted := 0, true
	for _, pc := range r.P.Conns {
		n, ok := wireDataFrames(pc.L.ToPeer())
		wire += n
		trusted = trusted && ok
	}
	if trusted {
		if got := m.DataMsgSendCount(); got != uint64(wire) {
			w.Fail("SEND_COUNT", "%s: DataMsgSendCount() = %d but the library wrote %d complete data frames (all connections)", where, got, wire)

			return
		}
		w.Probe("send_count_matches_wire")
	} else {
		w.Probe("send_count_skipped_after_torn_write")
	}
	// ---- data-received counter: well-formed data frames the peer sent that the library read while
	// Selected. A frame delivered within 1 ms of the instant the state left Selected may go either way.
	lo, hi := 0, 0
	for _, pc := range r.P.Conns {
		read := pc.L.ToLib().Delivered - pc.L.ToLib().Unread()
		for _, tx := range pc.Tx {
			if !tx.Valid || tx.H.SType != refhsms.STData || tx.H.PType != 0 || tx.EndOff > read {
				continue
			}
			at := tx.DeliveredAt()
			if at < 0 {
				continue
			}
			edge := false
			for _, t := range h.leftSelAt {
				if d := at - t; d >= -time.Millisecond && d <= time.Millisecond {
					edge = true
				}
			}
			afterEnd := false
			if ca := pc.L.A.ClosedAt; ca >= 0 && at > ca {
				afterEnd = true
			} else if ca >= 0 && at == ca {
				edge = true // delivered at the very instant the library closed the socket: either way
			}
			if fin := pc.L.ToLib().FinDeliveredAt(); edge && h.finBehind[pc] && fin >= 0 && at <= fin {
				// the session ended BECAUSE the peer closed, and this frame lies in front of that close in the
				// stream: the library read it while still Selected
				edge = false
			}
			switch {
			case afterEnd:
			case edge:
				hi++
			default:
				lo++
				hi++
			}
		}
	}
	if got := int(m.DataMsgRecvCount()); got < lo || got > hi {
		w.Fail("RECV_COUNT", "%s: DataMsgRecvCount() = %d but the peer's ledger says %d..%d well-formed data frames were read by the library while Selected", where, got, lo, hi)

		return
	}
	// ---- per-outcome counters (harness ledger of call results)
	var t3, werr, dropNS, rejects int
	for _, c := range h.calls {
		if !c.Done || c.Err == nil {
			continue
		}
		var rj *hsms.RejectError
		switch {
		case errors.Is(c.Err, hsms.ErrT3Timeout):
			t3++
		case errors.Is(c.Err, hsms.ErrNotSelectedState):
			dropNS++
		case errors.As(c.Err, &rj):
			rejects++
		case errors.Is(c.Err, hsms.ErrConnClosed), errors.Is(c.Err, context.DeadlineExceeded), errors.Is(c.Err, context.Canceled), errors.Is(c.Err, hsms.ErrNotOpen):
		default:
			// a transport write failure on a synchronous path
			if c.Kind == kW || c.Kind == kNoW || c.Kind == kForward {
				werr++
			}
		}
	}
	if got := int(m.DataMsgErrCount()); got != t3+werr {
		w.Fail("ERR_COUNT", "%s: DataMsgErrCount() = %d; the calls ended in %d T3 timeouts and %d synchronous write failures (%d peer rejects must move no error counter)", where, got, t3, werr, rejects)

		return
	}
	drop := int(m.DataMsgDropNotSelectedCount())
	maxDrop := dropNS
	if h.sc.Equip {
		maxDrop += t3 // an automatic S9F9 after a T3 timeout may itself meet the not-selected gate
	}
	if len(w.Faults) > 0 {
		// an asynchronous send accepted while Selected meets the write-boundary gate if a link fault
		// takes the session away before the writer goroutine reaches it: counted, but no call saw it
		for _, c := range h.calls {
			if c.Done && c.Err == nil && (c.Kind == kAsync || c.Kind == kReply) {
				maxDrop++
			}
		}
	}
	if drop < dropNS || drop > maxDrop {
		w.Fail("DROP_COUNT", "%s: DataMsgDropNotSelectedCount() = %d; %d calls were refused with the not-selected error", where, drop, dropNS)

		return
	}
	w.Probe("quiescent_point_checked")
}

func (h *harness) final(reason string) {
	w := h.w
	if !h.finished {
		for _, c := range h.calls {
			if !c.Done {
				w.Fail("BLOCKED", "%s never returned (run ended: %s)", kindNames[c.Kind], reason)

				return
			}
		}
		w.Fail("NO_QUIESCENCE", "the run never reached the end of phase %d (reason %s, state %v, arrived %d/%d, calls in progress %d): the session did not come back or the line never went quiet",
			h.phase, reason, h.r.C.State(), h.arrived, h.sc.Senders, h.inCall)
	}
}
