package c20

// Configurations "secs1" / "secs1-faulty": the metrics ledgers over the SECS-I transport. One real
// secs1 connection (host or equipment, dialing or listening) against the independent SEMI E4
// reference peer, which acknowledges blocks, assembles the library's messages with its own reference
// assembler, answers W-bit primaries (at once, never, after T3) and sends primaries of its own. In
// SECS-I a "data frame" is a message: the data-sent counter is compared with the messages all of whose
// blocks the peer acknowledged, the data-received counter with the peer's messages all of whose
// blocks the library acknowledged. Faults: FIN, RST, a NAK storm that exhausts the retry budget of
// the next send (the send fails, the line is dropped and re-established), refused re-dials, cold start.

import (
	"context"
	"errors"
	"fmt"
	"strings"
	"time"

	"github.com/arloliu/go-secs/v2/hsms"
	"github.com/arloliu/go-secs/v2/secs1"
	"github.com/arloliu/go-secs/v2/secs2"
	"github.com/arloliu/go-secs/v2/verifsim/core"
	"github.com/arloliu/go-secs/v2/verifsim/refe4"
	"github.com/arloliu/go-secs/v2/verifsim/refhsms"
	"github.com/arloliu/go-secs/v2/verifsim/rig"
	"github.com/arloliu/go-secs/v2/verifsim/simhook"
	"github.com/arloliu/go-secs/v2/verifsim/simnet"
)

const (
	f1None = iota
	f1FIN
	f1RST
	f1NakStorm
	f1RefusedRedial
	n1F
)

var fault1Names = []string{"none", "fin", "rst", "nak-storm", "rst+refused-redials"}

type scn1 struct {
	Active, Equip bool
	Device        uint16
	ColdStart     int
	T3            time.Duration
	Phases        int
	Senders       int
	PerPhase      int
	Faults        []int
	FaultAt       []time.Duration
	PeerMix       []int
	Unsolicited   int
	Paced         bool
	CloseEnd      bool
}

// gen1 is one TCP generation as the peer saw it.
type gen1 struct {
	p   *refe4.Peer
	l   *simnet.Link
	asm *refe4.Assembler
	// library -> peer: instants at which the peer acknowledged the LAST block of a complete message
	rxDone []time.Duration
	// peer -> library: instants at which the library's ACK of the last block of a message arrived
	txDone []time.Duration
	endAt  time.Duration // when the peer saw the connection end (-1 = alive)
	// faultAt: when the harness injected a link fault on this connection (-1 = never); txMaybe: messages
	// of the peer whose last byte reached the library but whose ACK never came back (the connection
	// ended): the library may or may not have counted them
	faultAt time.Duration
	txMaybe int
}

type harness1 struct {
	latePending int // late replies the peer has scheduled and not yet sent
	tail        int
	pacedBusy   *gen1
	w           *core.World
	r           *rig.Rig1
	sc          scn1

	gens     []*gen1
	calls    []*call
	inCall   int
	phase    int
	arrived  int
	released int
	checks   int
	finished bool
	stop     bool
	closed   bool
	closing  bool
	refuse   int
	nakStorm bool
	inSeq    uint32

	last            hsms.ConnState
	leftSelAt       []time.Duration
	loopSince       time.Duration
	listenersAtLoop int
	usedListeners   int
}

func genScn1(t *core.Tape, faulty bool) scn1 {
	sc := scn1{}
	sc.Active = t.Choose("scn", 2) == 1
	sc.Equip = t.Choose("scn", 2) == 1
	sc.Device = uint16(t.Choose("scn", 32768))
	sc.T3 = []time.Duration{300 * time.Millisecond, 120 * time.Millisecond}[t.Choose("scn", 2)]
	sc.Phases = 2 + t.Choose("scn", 3)
	sc.Senders = 1 + t.Choose("scn", 3)
	sc.PerPhase = 1 + t.Choose("scn", 4)
	for i := 0; i < sc.Phases; i++ {
		f := f1None
		if faulty && t.Choose("scn", 2) == 1 {
			f = 1 + t.Choose("scn", n1F-1)
		}
		if f == f1RefusedRedial && !sc.Active {
			f = f1RST
		}
		sc.Faults = append(sc.Faults, f)
		sc.FaultAt = append(sc.FaultAt, time.Duration(t.Choose("scn", 20))*10*time.Millisecond)
	}
	for i := 0; i < 8; i++ {
		sc.PeerMix = append(sc.PeerMix, t.Weighted("scn", 6, 0, 2, 2))
	}
	sc.Unsolicited = t.Choose("scn", 4)
	sc.Paced = t.Choose("scn", 4) == 0
	if faulty && sc.Active && t.Choose("scn", 3) == 0 {
		sc.ColdStart = 1 + t.Choose("scn", 3)
	}
	sc.CloseEnd = t.Choose("scn", 2) == 1

	return sc
}

func buildSECS1(faulty bool) core.BuildFunc {
	return func(w *core.World) *core.Scenario {
		h := &harness1{w: w, loopSince: -1}
		h.sc = genScn1(w.T, faulty)
		sc := h.sc
		h.r = rig.NewSECS1(w, rig.Opts1{Active: sc.Active, Equip: sc.Equip, Device: sc.Device, T1: 40 * time.Millisecond, T2: 100 * time.Millisecond, T3: sc.T3, T4: 2 * time.Second,
			T5: 300 * time.Millisecond, Retry: 1, BackoffInit: 30 * time.Millisecond, BackoffMult: 2, CloseTimeout: time.Second})
		r := h.r
		h.refuse = sc.ColdStart
		r.N.DialPlan = func(n int, address string) simnet.DialOutcome {
			if h.refuse > 0 {
				h.refuse--
				w.Fault("dial-refused")
				if n == 1 {
					h.loopSince = w.Now()
				}

				return simnet.DialOutcome{Kind: 1}
			}

			return simnet.DialOutcome{}
		}
		if sc.Active {
			r.N.OnConnect = func(l *simnet.Link) simnet.RawEnd {
				if g := h.cur(); g != nil && !g.p.Dead {
					return nil
				}
				g := h.newGen()
				g.p.L, g.l = l, l

				return g.p
			}
		} else {
			var tick func()
			tick = func() {
				if h.stop || h.finished {
					return
				}
				if g := h.cur(); (g == nil || g.p.Dead) && r.N.Listening(rig.Addr) && len(r.N.Listeners) > h.usedListeners {
					h.usedListeners = len(r.N.Listeners)
					g := h.newGen()
					if l := r.N.PeerConnect(rig.Addr, g.p); l != nil {
						g.p.L, g.l = l, l
					} else {
						h.gens = h.gens[:len(h.gens)-1]
					}
				}
				w.After(5*time.Millisecond, "peer-dial-tick", tick)
			}
			w.After(0, "peer-dial-tick", tick)
		}
		h.last = hsms.NotConnectedState
		simhook.Observer = h.observe
		w.AddMonitor(h.monitor)
		r.Open()
		for i := 0; i < sc.Senders; i++ {
			i := i
			w.Go(fmt.Sprintf("s%d", i), func() { h.sender(i) })
		}

		return &core.Scenario{
			Desc:       h.describe(),
			Horizon:    120 * time.Second,
			Done:       func() bool { return h.finished && w.Idle() },
			Final:      h.final,
			Cleanup:    func() { h.stop = true; _ = r.C.Close() },
			Nontrivial: func() bool { return len(h.calls) > 0 && h.checks > 0 },
		}
	}
}

func (h *harness1) describe() map[string]any {
	sc := h.sc
	var fs []string
	for i, f := range sc.Faults {
		fs = append(fs, fmt.Sprintf("%s@%v", fault1Names[f], sc.FaultAt[i]))
	}

	return map[string]any{"transport": "secs1", "active": sc.Active, "equip": sc.Equip, "device": sc.Device, "coldStartRefusals": sc.ColdStart, "T3": sc.T3.String(), "phases": sc.Phases,
		"senders": sc.Senders, "sendsPerPhase": sc.PerPhase, "faults": fs, "peerMix": sc.PeerMix, "unsolicitedPerPhase": sc.Unsolicited, "pacedMultiBlock": sc.Paced, "closeAtEnd": sc.CloseEnd}
}

func (h *harness1) cur() *gen1 {
	if len(h.gens) == 0 {
		return nil
	}

	return h.gens[len(h.gens)-1]
}

func (h *harness1) newGen() *gen1 {
	sc := h.sc
	g := &gen1{endAt: -1, faultAt: -1}
	g.p = refe4.New(h.w, !sc.Equip, 40*time.Millisecond, 100*time.Millisecond)
	g.asm = &refe4.Assembler{Device: sc.Device, ToHost: sc.Equip, T4: 2 * time.Second}
	g.p.Answer = func(b *refe4.RxBlock) byte {
		if !b.Valid {
			return refe4.NAK
		}
		if h.nakStorm {
			h.w.Fault("nak")

			return refe4.NAK
		}

		return refe4.ACK
	}
	g.p.OnBlock = func(b refe4.RxBlock) {
		if !b.Valid || b.Answer != refe4.ACK {
			return
		}
		n := len(g.asm.Out)
		g.asm.Feed(b.H, b.Body, b.At)
		if len(g.asm.Out) == n {
			return
		}
		m := g.asm.Out[len(g.asm.Out)-1]
		g.rxDone = append(g.rxDone, h.w.Now())
		if !m.H.W || m.H.Stream == 9 {
			return
		}
		reply := func() {
			if g.p.Dead {
				return
			}
			rh := refe4.Header{Device: sc.Device, R: !m.H.R, Stream: m.H.Stream, Func: m.H.Func + 1, Num: 1, E: true, Sys: m.H.Sys}
			body := m.Body
			if len(body) > 200 {
				body = refhsms.ASCII("re") // one block carries at most 244 body bytes
			}
			h.peerSend(g, refe4.Wire(rh, body))
		}
		switch sc.PeerMix[int(m.H.Sys)%len(sc.PeerMix)] {
		case pReply:
			reply()
		case pLate:
			h.latePending++
			h.w.After(sc.T3+20*time.Millisecond, "late-reply", func() { h.latePending--; reply() })
		}
	}
	g.p.OnEnd = func() { g.endAt = h.w.Now() }
	h.gens = append(h.gens, g)

	return g
}

// peerSend transmits one single-block message to the library and books it when the library's ACK
// arrives.
func (h *harness1) peerSend(g *gen1, raw []byte) {
	g.p.SendBlock(raw, nil, nil, func(res refe4.TxResult) {
		switch {
		case res.Outcome == "ack":
			g.txDone = append(g.txDone, res.AnswerAt)
		case res.SentAt > 0 && res.SentAt <= h.w.Now():
			g.txMaybe++ // delivered, no ACK seen (connection ended / answer lost with it)
		}
	})
}

// peerSendPaced transmits one message of n full blocks, gap apart, and books it when the library has
// acknowledged every block.
func (h *harness1) peerSendPaced(g *gen1, mh refe4.Header, n int, gap time.Duration) {
	w := h.w
	w.Probe("paced_multi_block_message_longer_than_T4")
	h.pacedBusy = g
	acked := 0
	var next func(k int)
	next = func(k int) {
		if g.p.Dead {
			return
		}
		hd := mh
		hd.Num, hd.E = uint16(k), k == n
		body := make([]byte, 244)
		for i := range body {
			body[i] = byte(k)
		}
		if k == 1 {
			body[0], body[1], body[2], body[3] = 0x23, byte((n*244-4)>>16), byte((n*244-4)>>8), byte(n*244-4) // one Binary item over all blocks
		}
		g.p.SendBlock(refe4.Wire(hd, body), nil, nil, func(res refe4.TxResult) {
			if res.Outcome == "ack" {
				acked++
			}
			if k == n || res.Outcome != "ack" {
				h.pacedBusy = nil
			}
			switch {
			case k < n:
				if res.Outcome == "ack" {
					w.After(gap, "paced-block", func() { next(k + 1) })
				}
			case acked == n:
				g.txDone = append(g.txDone, res.AnswerAt)
			case acked == n-1 && res.SentAt > 0 && res.SentAt <= w.Now():
				g.txMaybe++
			}
		})
	}
	next(1)
}

func (h *harness1) observe() {
	m := h.r.C.Metrics()
	if v := m.DataMsgInflightCount(); v < 0 {
		h.w.Fail("NEGATIVE", "the in-flight gauge is %d", v)
	}
	if v := m.Reconnecting(); v < 0 {
		h.w.Fail("NEGATIVE", "the reconnecting gauge is %d", v)
	}
	st := h.r.C.State()
	if st != h.last {
		now := h.w.Now()
		if h.last == hsms.SelectedState {
			h.leftSelAt = append(h.leftSelAt, now)
		}
		if st == hsms.NotConnectedState && !h.closing && !h.closed {
			h.loopSince = now
			h.listenersAtLoop = len(h.r.N.Listeners)
		}
		if st != hsms.NotConnectedState {
			h.loopSince = -1
		}
		h.last = st
	}
}

func (h *harness1) monitor() {
	if !h.sc.Active && h.loopSince >= 0 && len(h.r.N.Listeners) > h.listenersAtLoop {
		h.loopSince = -1
	}
	if h.loopSince >= 0 && !h.closing && !h.closed && h.w.Now() > h.loopSince && h.r.C.State() == hsms.NotConnectedState {
		if g := h.r.C.Metrics().Reconnecting(); g < 1 {
			h.w.Fail("RECONNECTING", "the connection has been NotConnected and retrying since %v (now %v) but Reconnecting() = %d", h.loopSince, h.w.Now(), g)

			return
		}
		h.w.Probe("reconnecting_positive_while_retrying")
	}
	if h.arrived == h.sc.Senders && h.released < h.phase+1 && h.inCall == 0 {
		if !h.quiet() {
			return
		}
		h.quiescent(fmt.Sprintf("end of phase %d", h.phase))
		h.phase++
		h.arrived = 0
		h.released = h.phase
		if h.phase >= h.sc.Phases {
			if h.sc.Paced && h.latePending == 0 {
				// a tail phase on the now quiet line: one four-block message whose blocks come 0.45 x T4
				// apart — every gap inside T4, the whole message longer than T4: complete, so it counts
				h.tail = 1
				h.peerSendPaced(h.cur(), refe4.Header{Device: h.sc.Device, R: !h.sc.Equip, Stream: 6, Func: 11, Sys: 0x5F000001}, 4, 900*time.Millisecond)
				var tick func()
				tick = func() {
					if h.tail == 1 && !h.stop {
						h.w.After(5*time.Millisecond, "paced-tail-tick", tick)
					}
				}
				tick()

				return
			}
			h.finish()

			return
		}
		h.armFault(h.phase)
	}
	if h.tail == 1 && (h.pacedBusy == nil || h.pacedBusy.p.Dead) {
		if h.pacedBusy == nil && !h.quiet() {
			return
		}
		h.tail = 2
		if h.pacedBusy == nil {
			h.quiescent("after the paced four-block message")
		}
		h.finish()
	}
}

func (h *harness1) quiet() bool {
	g := h.cur()
	if g == nil || g.p.Dead || g.l == nil || g.faultAt >= 0 || !h.r.Selected() || g.p.Busy() || h.nakStorm {
		return false
	}
	if g.l.ToLib().InFlight() != 0 || g.l.ToLib().Unread() != 0 || g.l.ToPeer().InFlight() != 0 {
		return false
	}

	return h.w.S.NumParked() == 0
}

func (h *harness1) armFault(p int) {
	w := h.w
	f := h.sc.Faults[p]
	if f == f1None {
		return
	}
	w.After(h.sc.FaultAt[p], "fault", func() {
		g := h.cur()
		if g == nil || g.p.Dead || g.l == nil {
			return
		}
		if f != f1NakStorm {
			g.faultAt = w.Now()
		}
		switch f {
		case f1FIN:
			w.Fault("fin")
			g.l.FIN()
		case f1RST:
			w.Fault("rst")
			g.l.RST()
		case f1NakStorm:
			// every block is refused until this connection ends: the next send exhausts its retries,
			// fails, and the library drops and re-establishes the line
			w.Fault("nak-storm")
			h.nakStorm = true
			gg := g
			var watch func()
			watch = func() {
				if gg.p.Dead || h.stop {
					h.nakStorm = false

					return
				}
				w.After(5*time.Millisecond, "nak-storm-watch", watch)
			}
			watch()
			// make sure a send meets the storm even if the phase's own sends are over
			w.Go("storm-send", func() {
				// (the storm may have been armed on a connection that is not Selected yet: a send refused at
				// the gate never reaches the line, and nothing would ever end this connection)
				for i := 0; i < 2000 && !h.r.Selected() && !gg.p.Dead && !h.stop; i++ {
					core.Sleep(2 * time.Millisecond)
				}
				h.inCall++
				c := &call{Kind: kNoW, Phase: h.phase}
				h.calls = append(h.calls, c)
				_, err := h.r.C.SendDataMessage(context.Background(), 1, 3, false, secs2.A("storm"))
				c.Err, c.Done = err, true
				h.inCall--
				w.Logf("call storm err=%v", err)
			})
		case f1RefusedRedial:
			w.Fault("rst")
			h.refuse = 1 + w.T.Choose("peer", 3)
			g.l.RST()
		}
	})
}

func (h *harness1) sender(si int) {
	w := h.w
	C := h.r.C
	for p := 0; p < h.sc.Phases; p++ {
		for h.released < p && !h.stop {
			core.Sleep(2 * time.Millisecond)
		}
		if p == 0 {
			for !h.r.Selected() && !h.stop {
				core.Sleep(2 * time.Millisecond)
			}
			if si == 0 {
				h.armFault(0)
			}
		}
		for i := 0; i < h.sc.PerPhase && !h.stop; i++ {
			core.Sleep(time.Duration(1+w.T.Choose("app", 40)) * time.Millisecond)
			kind := w.T.Weighted("app", 5, 2, 3, 1, 1)
			c := &call{Kind: kind, Phase: p}
			h.calls = append(h.calls, c)
			h.inCall++
			ctx := context.Background()
			var cancel context.CancelFunc
			if w.T.Choose("app", 5) == 0 {
				ctx, cancel = context.WithTimeout(ctx, time.Duration(20+w.T.Choose("app", 200))*time.Millisecond)
			}
			size := []int{0, 5, 300}[w.T.Choose("app", 3)]
			tok := fmt.Sprintf("t%d-%d-%d|", si, p, i) + strings.Repeat("x", size)
			sys := [4]byte{0x62, byte(si), byte(p), byte(i)}
			var err error
			var rep *hsms.DataMessage
			switch kind {
			case kW:
				rep, err = C.SendDataMessage(ctx, 1, 1, true, secs2.A(tok))
			case kNoW:
				_, err = C.SendDataMessage(ctx, 1, 3, false, secs2.A(tok))
			case kAsync:
				err = C.SendDataMessageAsync(ctx, 1, 5, false, secs2.A(tok))
			case kForward:
				m, _ := hsms.NewDataMessage(4, 1, false, h.sc.Device, sys, secs2.A(tok))
				err = C.ForwardDataMessage(ctx, m)
			case kReply:
				prim, _ := hsms.NewDataMessage(3, 1, true, h.sc.Device, sys, secs2.A("p"))
				err = C.ReplyDataMessage(ctx, prim, secs2.A(tok))
			}
			if cancel != nil {
				cancel()
			}
			c.Err, c.Reply, c.Done = err, rep != nil, true
			h.inCall--
			w.Logf("call t%d-%d-%d %s err=%v", si, p, i, kindNames[kind], err)
		}
		if si == 0 {
			if g := h.cur(); g != nil && !g.p.Dead && h.r.Selected() {
				for k := 0; k < h.sc.Unsolicited; k++ {
					h.inSeq++
					hd := refe4.Header{Device: h.sc.Device, R: !h.sc.Equip, Stream: 6, Func: 11, Num: 1, E: true, Sys: 0x50000000 + h.inSeq}
					raw := refe4.Wire(hd, refhsms.ASCII("evt"))
					h.peerSend(g, raw)
					if w.T.Choose("peer", 3) == 0 {
						// the identical block again, as if the library's ACK had been lost: an E4 duplicate —
						// acknowledged, discarded, and NOT a second received message
						g.p.SendBlock(raw, nil, nil, nil)
						w.Probe("duplicate_block_retransmitted")
					}
				}
			}
		}
		h.arrived++
	}
}

func (h *harness1) finish() {
	w := h.w
	if !h.sc.CloseEnd {
		h.finished = true

		return
	}
	w.Go("closer", func() {
		h.closing = true
		_ = h.r.C.Close()
		h.closed = true
		core.Sleep(50 * time.Millisecond)
		m := h.r.C.Metrics()
		if v := m.Reconnecting(); v != 0 {
			w.Fail("RECONNECTING", "Reconnecting() = %d after Close", v)
		}
		if v := m.DataMsgInflightCount(); v != 0 {
			w.Fail("INFLIGHT", "the in-flight gauge is %d after Close", v)
		}
		h.finished = true
	})
}

// bounds counts the instants in done: certainly counted (lo) and possibly counted (hi). An
// acknowledgement that crossed the line within 2 ms of the connection's end (either side's view) or
// of the instant the state left Selected may or may not have been seen by the library.
func (h *harness1) bounds(g *gen1, done []time.Duration) (lo, hi int) {
	for _, at := range done {
		edge := false
		for _, t := range h.leftSelAt {
			if d := at - t; d >= -2*time.Millisecond && d <= 2*time.Millisecond {
				edge = true
			}
		}
		if g.endAt >= 0 && at >= g.endAt-2*time.Millisecond {
			edge = true
		}
		if g.faultAt >= 0 && at >= g.faultAt-2*time.Millisecond {
			edge = true
		}
		if ca := g.l.A.ClosedAt; ca >= 0 && at >= ca-2*time.Millisecond {
			edge = true
		}
		hi++
		if !edge {
			lo++
		}
	}

	return lo, hi
}

func (h *harness1) quiescent(where string) {
	w, r := h.w, h.r
	m := r.C.Metrics()
	h.checks++
	if v := m.DataMsgInflightCount(); v != 0 {
		w.Fail("INFLIGHT", "%s (quiescent: no call in progress, line idle): the in-flight gauge is %d", where, v)

		return
	}
	if v := m.Reconnecting(); v != 0 {
		w.Fail("RECONNECTING", "%s (quiescent, Selected): Reconnecting() = %d", where, v)

		return
	}
	sLo, sHi, rLo, rHi := 0, 0, 0, 0
	for _, g := range h.gens {
		if g.l == nil {
			continue
		}
		a, b := h.bounds(g, g.rxDone)
		sLo, sHi = sLo+a, sHi+b
		a, b = h.bounds(g, g.txDone)
		rLo, rHi = rLo+a, rHi+b+g.txMaybe
	}
	if got := int(m.DataMsgSendCount()); got < sLo || got > sHi {
		w.Fail("SEND_COUNT", "%s: DataMsgSendCount() = %d but the peer received and acknowledged %d..%d complete messages (all connections)", where, got, sLo, sHi)

		return
	}
	if got := int(m.DataMsgRecvCount()); got < rLo || got > rHi {
		bm := r.C.BlockMetrics()
		w.Fail("RECV_COUNT", "%s: DataMsgRecvCount() = %d but the library acknowledged %d..%d complete messages of the peer while Selected (block metrics: %d blocks received, %d duplicates dropped, %d partial messages timed out by T4, %d block-number mismatches, %d invalid first blocks)", where, got, rLo, rHi,
			bm.BlockRecvCount(), bm.BlockDupDropCount(), bm.PartialTimeoutCount(), bm.BlockNumberMismatchCount(), bm.InvalidFirstBlockCount())

		return
	}
	if sLo == sHi && rLo == rHi {
		w.Probe("counters_match_peer_ledger_exactly")
	}
	var t3, werr, dropNS int
	for _, c := range h.calls {
		if !c.Done || c.Err == nil {
			continue
		}
		switch {
		case errors.Is(c.Err, hsms.ErrT3Timeout):
			t3++
		case errors.Is(c.Err, hsms.ErrNotSelectedState):
			dropNS++
		case errors.Is(c.Err, secs1.ErrSendFailed):
			// the retry budget of a block was used up: a failed send on the wire, whatever else the error
			// may also claim to be
			if c.Kind == kW || c.Kind == kNoW || c.Kind == kForward {
				werr++
			}
		case errors.Is(c.Err, hsms.ErrConnClosed), errors.Is(c.Err, context.DeadlineExceeded), errors.Is(c.Err, context.Canceled), errors.Is(c.Err, hsms.ErrNotOpen):
		default:
			if c.Kind == kW || c.Kind == kNoW || c.Kind == kForward {
				werr++
			}
		}
	}
	if got := int(m.DataMsgErrCount()); got != t3+werr {
		w.Fail("ERR_COUNT", "%s: DataMsgErrCount() = %d; the calls ended in %d T3 timeouts and %d synchronous transport failures", where, got, t3, werr)

		return
	}
	drop := int(m.DataMsgDropNotSelectedCount())
	maxDrop := dropNS
	if h.sc.Equip {
		maxDrop += t3
	}
	if len(w.Faults) > 0 {
		for _, c := range h.calls {
			if c.Done && c.Err == nil && (c.Kind == kAsync || c.Kind == kReply) {
				maxDrop++
			}
		}
	}
	if drop < dropNS || drop > maxDrop {
		w.Fail("DROP_COUNT", "%s: DataMsgDropNotSelectedCount() = %d; %d calls were refused with the not-selected error", where, drop, dropNS)

		return
	}
	w.Probe("quiescent_point_checked")
}

func (h *harness1) final(reason string) {
	if !h.finished {
		h.w.Fail("BLOCKED", "the scenario did not finish (reason %s, phase %d of %d, %d calls in progress, state %v)", reason, h.phase, h.sc.Phases, h.inCall, h.r.C.State())
	}
}
