// Package c06 decides property C06: every reply-expected send gets exactly its own reply or one
// definite error; every inbound data message reaches exactly one recipient.
package c06

import (
	"context"
	"errors"
	"fmt"
	"sort"
	"strings"
	"time"

	"github.com/arloliu/go-secs/v2/hsms"
	"github.com/arloliu/go-secs/v2/hsmsss"
	"github.com/arloliu/go-secs/v2/secs2"
	"github.com/arloliu/go-secs/v2/verifsim/core"
	"github.com/arloliu/go-secs/v2/verifsim/refhsms"
	"github.com/arloliu/go-secs/v2/verifsim/rig"
	"github.com/arloliu/go-secs/v2/verifsim/simnet"
)

type (
	simnetPipe = simnet.Pipe
	segPlan    = simnet.SegPlan
)

// peer actions on a received W-bit primary
const (
	aReplyNow = iota
	aReplyLate
	aNever
	aDupReply
	aUnsolicitedFirst
	aCollidingPrimary
	aReject
	aCtrlRspCollide
	aAbortF0
	aWBitSecondary
	aHoldAndSwap
	nActions
)

var actionNames = []string{"reply", "reply-late", "never", "dup-reply", "unsolicited-first", "colliding-primary", "reject", "ctrl-rsp-collide", "abort-F0", "wbit-secondary", "hold-and-swap"}

type sendSpec struct {
	Kind     int // 0 SendDataMessage, 1 SendSECS2Message
	Stream   byte
	Function byte
	Gap      time.Duration // pause before the send
	CtxKind  int           // 0 none, 1 deadline, 2 cancel event
	CtxAfter time.Duration
}

type call struct {
	ID     string
	Spec   sendSpec
	TCall  time.Duration
	TRet   time.Duration
	Done   bool
	Reply  *hsms.DataMessage
	Err    error
	CtxAt  time.Duration // when the caller's ctx ended (deadline or cancel), -1 none
	Token  string
	StateC hsms.ConnState
}

type scenario struct {
	Active     bool
	Equip      bool
	T3         time.Duration
	T6         time.Duration
	Senders    [][]sendSpec
	Faulty     bool
	LinkFaults []linkFault
	CloseAt    time.Duration // application Close (0 = none)
	Linktest   time.Duration
	// BadBodies: a third of the data frames the peer sends (replies of every kind, unsolicited ones)
	// carry a body that is not valid SECS-II; DecodeHandlers: the application has decode-error handlers
	// registered. A malformed reply still belongs to its waiting sender (returned together with the
	// decode error); only messages nobody waits for go to the decode-error handlers.
	BadBodies      bool
	DecodeHandlers bool
}

type linkFault struct {
	At   time.Duration
	Kind int // 0 fin, 1 rst, 2 slow write: the peer's window closes for a fraction of T3
}

type txInfo struct {
	tx     *refhsms.TxFrame
	forSys uint32
	kind   string // reply | reject | ctrl | primary | unsolicited | wbitsec
	token  string // reply token (body) for data frames
}

type harness struct {
	w           *core.World
	r           *rig.Rig
	sc          scenario
	calls       []*call
	nDone       int
	total       int
	sent        []*txInfo
	held        *refhsms.RxFrame
	heldC       *refhsms.Conn
	nRep        int
	badTok      map[string]bool
	pending     int
	closedAt    time.Duration
	actionsUsed map[string]int
}

func genScenario(t *core.Tape, faulty bool) scenario {
	sc := scenario{Faulty: faulty}
	sc.Active = t.Choose("scn", 2) == 0
	sc.Equip = t.Choose("scn", 2) == 1
	t3s := []time.Duration{2 * time.Second, 500 * time.Millisecond, 5 * time.Second, 200 * time.Millisecond}
	sc.T3 = t3s[t.Choose("scn", len(t3s))]
	sc.T6 = []time.Duration{5 * time.Second, time.Second}[t.Choose("scn", 2)]
	if t.Choose("scn", 3) == 2 {
		sc.Linktest = []time.Duration{time.Second, 300 * time.Millisecond}[t.Choose("scn", 2)]
	}
	if t.Choose("scn", 3) == 0 {
		sc.BadBodies = true
		sc.DecodeHandlers = t.Choose("scn", 3) != 0
	}
	ns := 1 + t.Choose("scn", 6)
	for s := 0; s < ns; s++ {
		var specs []sendSpec
		n := 1 + t.Choose("scn", 5)
		for i := 0; i < n; i++ {
			sp := sendSpec{
				Kind:     t.Choose("scn", 2),
				Stream:   byte(1 + t.Choose("scn", 20)),
				Function: byte(1 + 2*t.Choose("scn", 10)),
				Gap:      time.Duration(t.Choose("scn", 4)) * 100 * time.Millisecond,
			}
			switch t.Weighted("scn", 6, 1, 1) {
			case 1:
				sp.CtxKind = 1
				sp.CtxAfter = time.Duration(1+t.Choose("scn", 30)) * 100 * time.Millisecond
			case 2:
				sp.CtxKind = 2
				sp.CtxAfter = time.Duration(1+t.Choose("scn", 30)) * 100 * time.Millisecond
			}
			specs = append(specs, sp)
		}
		sc.Senders = append(sc.Senders, specs)
	}
	if faulty {
		nf := t.Choose("scn", 3)
		for i := 0; i < nf; i++ {
			sc.LinkFaults = append(sc.LinkFaults, linkFault{
				At:   time.Duration(200+t.Choose("scn", 8000)) * time.Millisecond,
				Kind: t.Weighted("scn", 2, 2, 3),
			})
		}
		if t.Choose("scn", 4) == 0 {
			sc.CloseAt = time.Duration(500+t.Choose("scn", 8000)) * time.Millisecond
		}
	}

	return sc
}

// Build returns the scenario builder for a configuration ("clean" or "faulty").
func Build(config string) core.BuildFunc {
	if config == "secs1" {
		return buildSECS1()
	}

	return func(w *core.World) *core.Scenario {
		h := &harness{w: w, actionsUsed: map[string]int{}, badTok: map[string]bool{}}
		h.sc = genScenario(w.T, config == "faulty")
		sc := h.sc
		reSession := w.T.Choose("trace", 4) == 0
		h.r = rig.New(w, rig.Opts{TraceTraffic: w.T.Choose("trace", 4) == 0, ValidateSession: reSession, DecodeErrHandlers: sc.DecodeHandlers, Active: sc.Active, Equip: sc.Equip, T3: sc.T3, T6: sc.T6, T7: 30 * time.Second,
			Linktest: sc.Linktest, BackoffInit: 100 * time.Millisecond, T5: time.Second})
		r := h.r
		if w.T.Choose("scn", 3) == 0 {
			// a long-lived connection: the System Bytes counter is a few allocations away from its 2^32
			// wrap, so the transactions of this run straddle it (uniqueness among the open ones still holds)
			v := uint32(0xFFFFFFFF - uint32(w.T.Choose("scn", 6)))
			if !hsmsss.VerifSetSystemBytes(r.C, v) {
				w.Fail("HARNESS", "VerifSetSystemBytes refused the connection")
			}
			w.Probe("system_bytes_counter_near_wrap")
		}
		r.N.Seg = func(p *simnetPipe, n int) []segPlan { return h.seg(n) }
		r.P.OnFrame = h.onFrame
		for _, s := range sc.Senders {
			h.total += len(s)
		}
		mode := hsms.OpenBackground
		r.Open(mode)
		if !sc.Active {
			r.PeerDialLoop(150*time.Millisecond, func() bool { return h.closedAt > 0 })
		}
		// senders start once the session is selected
		started := false
		w.AddMonitor(func() {
			if started || !r.Selected() {
				return
			}
			started = true
			if reSession {
				// session-id validation is on and the session id is changed at run time: from now on the
				// primaries carry the new id, the peer's replies echo it, and they must be routed as ever
				if err := r.C.UpdateConfigOptions(hsms.WithSessionID(0x1234)); err != nil {
					w.Fail("HARNESS", "UpdateConfigOptions(WithSessionID): %v", err)

					return
				}
				w.Probe("session_id_changed_at_run_time_with_validation_on")
			}
			for si, specs := range sc.Senders {
				si, specs := si, specs
				w.Go(fmt.Sprintf("sender%d", si), func() { h.sender(si, specs) })
			}
		})
		for _, lf := range sc.LinkFaults {
			lf := lf
			w.After(lf.At, "linkfault", func() {
				c := r.P.Last()
				if c == nil || !c.Alive() {
					return
				}
				switch lf.Kind {
				case 0:
					w.Fault("fin")
					c.L.FIN()
				case 1:
					w.Fault("rst")
					c.L.RST()
				default:
					// the library's writes stop draining for a while: a send spends a noticeable part of
					// T3 queued on the write lock or inside the write before its primary is on the wire
					d := sc.T3 / time.Duration(2+w.T.Choose("net", 3))
					w.Fault("slow-write")
					c.L.SetCap(24)
					c.L.Stall(false, d)
					w.After(d, "slow-write-end", func() { c.L.SetCap(1 << 20) })
				}
			})
		}
		if sc.CloseAt > 0 {
			w.After(sc.CloseAt, "app-close", func() {
				w.Go("closer", func() {
					h.closedAt = w.Now()
					w.Fault("app-close")
					_ = r.C.Close()
				})
			})
		}
		horizon := 30*time.Second + time.Duration(h.total)*(sc.T3+time.Second)

		return &core.Scenario{
			Desc:    h.describe(),
			Horizon: horizon,
			Done:    func() bool { return started && h.nDone == len(sc.Senders) && h.quiet() && w.Idle() },
			Final:   h.final,
			Cleanup: func() { r.Close() },
			Nontrivial: func() bool {
				return len(h.calls) > 0 && len(h.sent) > 0
			},
		}
	}
}

func (h *harness) quiet() bool {
	// all senders done and nothing of ours still in flight towards the library
	if h.pending > 0 || h.held != nil {
		return false
	}
	c := h.r.P.Last()
	if c == nil {
		return true
	}

	return c.L.ToLib().InFlight() == 0 && c.L.ToLib().Unread() == 0
}

func (h *harness) describe() map[string]any {
	sc := h.sc
	d := map[string]any{"active": sc.Active, "equip": sc.Equip, "T3": sc.T3.String(), "T6": sc.T6.String(), "senders": len(sc.Senders), "sends": h.total,
		"linktest": sc.Linktest.String(), "faults": len(sc.LinkFaults), "closeAt": sc.CloseAt.String()}

	return d
}

func (h *harness) seg(n int) []segPlan {
	t := h.w.T
	if n > 1 && t.Bias("net", 1, 4) {
		k := 1 + t.Choose("net", n-1)

		return []segPlan{{Size: k, Delay: time.Millisecond}, {Size: n - k, Delay: time.Duration(t.Choose("net", 3)) * time.Millisecond}}
	}

	return []segPlan{{Size: n, Delay: time.Millisecond}}
}

func (h *harness) sender(si int, specs []sendSpec) {
	defer func() { h.nDone++ }()
	w := h.w
	for i, sp := range specs {
		if sp.Gap > 0 {
			core.Sleep(sp.Gap)
		}
		if h.closedAt > 0 {
			return
		}
		c := &call{ID: fmt.Sprintf("k%d-%d", si, i), Spec: sp, CtxAt: -1}
		c.Token = c.ID
		h.calls = append(h.calls, c)
		ctx := context.Background()
		var cancel context.CancelFunc
		switch sp.CtxKind {
		case 1:
			ctx, cancel = context.WithTimeout(ctx, sp.CtxAfter)
			c.CtxAt = w.Now() + sp.CtxAfter
		case 2:
			ctx, cancel = context.WithCancel(ctx)
			cc := cancel
			at := w.Now() + sp.CtxAfter
			c.CtxAt = at
			w.After(sp.CtxAfter, "ctx-cancel "+c.ID, func() { cc() })
		}
		c.TCall = w.Now()
		c.StateC = h.r.C.State()
		w.Logf("call %s start", c.ID)
		var rep *hsms.DataMessage
		var err error
		if sp.Kind == 0 {
			rep, err = h.r.C.SendDataMessage(ctx, sp.Stream, sp.Function, true, secs2.A(c.Token))
		} else {
			m, merr := hsms.NewDataMessage(sp.Stream, sp.Function, true, 0, [4]byte{}, secs2.A(c.Token))
			if merr != nil {
				w.Fail("HARNESS", "NewDataMessage: %v", merr)

				return
			}
			rep, err = h.r.C.SendSECS2Message(ctx, secs2Msg{m})
		}
		c.TRet = w.Now()
		c.Reply, c.Err, c.Done = rep, err, true
		w.Logf("call %s end err=%v reply=%v", c.ID, err, rep != nil)
		if cancel != nil {
			cancel()
		}
	}
}

// secs2Msg adapts a DataMessage to secs2.SECS2Message.
type secs2Msg struct{ m *hsms.DataMessage }

func (s secs2Msg) StreamCode() uint8   { return s.m.Stream() }
func (s secs2Msg) FunctionCode() uint8 { return s.m.Function() }
func (s secs2Msg) WaitBit() bool       { return s.m.WaitBit() }
func (s secs2Msg) Item() secs2.Item    { it, _ := s.m.Item(); return it }

func (h *harness) replyBody(sys uint32) (string, []byte) {
	h.nRep++
	tok := fmt.Sprintf("r%d-%d", sys, h.nRep)
	if h.sc.BadBodies && h.w.T.Choose("peer", 3) == 0 {
		// a list that claims two children and holds one: the frame is fine, the body is not SECS-II
		h.w.Probe("peer_data_frame_with_undecodable_body")
		h.badTok[tok] = true

		return tok, append([]byte{0x01, 0x02}, refhsms.ASCII(tok)...)
	}

	return tok, refhsms.ASCII(tok)
}

// tokOf reads the token of a data body the peer or the library produced (valid or the malformed form).
func tokOf(b []byte) (string, bool) {
	if len(b) > 2 && b[0] == 0x01 && b[1] == 0x02 {
		return refhsms.ParseASCII(b[2:])
	}

	return refhsms.ParseASCII(b)
}

func (h *harness) sendData(c *refhsms.Conn, hd refhsms.Header, forSys uint32, kind string, delay time.Duration) {
	tok, body := h.replyBody(forSys)
	send := func() {
		if !c.Alive() {
			return
		}
		tx := c.SendFrame(hd, body)
		if tx != nil {
			h.sent = append(h.sent, &txInfo{tx: tx, forSys: forSys, kind: kind, token: tok})
		}
	}
	if delay <= 0 {
		send()
	} else {
		h.pending++
		h.w.After(delay, "peer-send "+kind, func() { h.pending--; send() })
	}
}

func (h *harness) sendCtl(c *refhsms.Conn, hd refhsms.Header, forSys uint32, kind string) {
	tx := c.SendFrame(hd, nil)
	if tx != nil {
		h.sent = append(h.sent, &txInfo{tx: tx, forSys: forSys, kind: kind})
	}
}

// onFrame scripts the peer's reaction to each received frame from the tape (driver context).
func (h *harness) onFrame(c *refhsms.Conn, f refhsms.RxFrame) {
	if f.H.SType != refhsms.STData || f.H.PType != 0 || !f.H.W() {
		return
	}
	t := h.w.T
	sys := f.H.Sys
	sess := f.H.Session
	rep := refhsms.DataHeader(sess, f.H.Stream(), f.H.Function()+1, false, sys)
	eps := time.Millisecond
	act := t.Weighted("peer", 10, 3, 2, 2, 2, 2, 2, 2, 1, 1, 2)
	h.actionsUsed[actionNames[act]]++
	h.w.Probe("peer_" + actionNames[act])
	switch act {
	case aReplyNow:
		h.sendData(c, rep, sys, "reply", time.Duration(t.Choose("peer", 4))*10*time.Millisecond)
	case aReplyLate:
		ds := []time.Duration{h.sc.T3 / 2, h.sc.T3 - 2*eps - 2*time.Millisecond, h.sc.T3 + 5*eps, 2 * h.sc.T3, h.sc.T3 - time.Millisecond}
		h.sendData(c, rep, sys, "reply", ds[t.Choose("peer", len(ds))])
	case aNever:
	case aDupReply:
		h.sendData(c, rep, sys, "reply", 0)
		h.sendData(c, rep, sys, "reply", time.Duration(t.Choose("peer", 3))*5*time.Millisecond)
	case aUnsolicitedFirst:
		other := sys + 1000 + uint32(t.Choose("peer", 5))
		h.sendData(c, refhsms.DataHeader(sess, f.H.Stream(), f.H.Function()+1, false, other), other, "unsolicited", 0)
		h.sendData(c, rep, sys, "reply", time.Duration(t.Choose("peer", 3))*5*time.Millisecond)
	case aCollidingPrimary:
		wbit := t.Choose("peer", 2) == 1
		h.sendData(c, refhsms.DataHeader(sess, byte(1+t.Choose("peer", 20)), byte(1+2*t.Choose("peer", 10)), wbit, sys), sys, "primary", 0)
		if t.Choose("peer", 2) == 0 {
			h.sendData(c, rep, sys, "reply", time.Duration(t.Choose("peer", 3))*5*time.Millisecond)
		}
	case aReject:
		reason := byte(t.Choose("peer", 256))
		h.sendCtl(c, refhsms.Header{Session: sess, B2: 0, B3: reason, SType: refhsms.STRejectReq, Sys: sys}, sys, "reject")
	case aCtrlRspCollide:
		st := []byte{refhsms.STSelectRsp, refhsms.STDeselectRsp, refhsms.STLinktestRsp}[t.Choose("peer", 3)]
		hd := refhsms.Header{Session: sess, SType: st, Sys: sys}
		if st == refhsms.STLinktestRsp {
			hd.Session = 0xFFFF
		}
		h.sendCtl(c, hd, sys, "ctrl")
		if t.Choose("peer", 2) == 0 {
			h.sendData(c, rep, sys, "reply", time.Duration(1+t.Choose("peer", 3))*5*time.Millisecond)
		}
	case aAbortF0:
		h.sendData(c, refhsms.DataHeader(sess, f.H.Stream(), 0, false, sys), sys, "reply", 0)
	case aWBitSecondary:
		// even function with the W-bit set: not a reply (a malformed primary); then the real reply
		h.sendData(c, refhsms.DataHeader(sess, f.H.Stream(), f.H.Function()+1, true, sys), sys, "wbitsec", 0)
		h.sendData(c, rep, sys, "reply", time.Duration(1+t.Choose("peer", 3))*5*time.Millisecond)
	case aHoldAndSwap:
		// answer in permuted order: hold this one until the next primary arrives (or 50 ms)
		if h.held != nil && h.heldC == c {
			prev := *h.held
			h.held = nil
			h.sendData(c, rep, sys, "reply", 0)
			h.sendData(c, refhsms.DataHeader(prev.H.Session, prev.H.Stream(), prev.H.Function()+1, false, prev.H.Sys), prev.H.Sys, "reply", 0)
		} else {
			ff := f
			h.held, h.heldC = &ff, c
			h.w.After(50*time.Millisecond, "release-held", func() {
				if h.held == &ff {
					h.held = nil
					h.sendData(c, rep, sys, "reply", 0)
				}
			})
		}
	}
}

// ---- oracle ----

type event struct {
	at    time.Duration
	class string // reply | reject | timeout | closed | ctx
	ti    *txInfo
	// opt: the event MAY complete the call but need not — a reply or reject that reaches the library
	// after the application's Close was issued and before the socket is closed (the courtesy Separate
	// of a graceful Close can block for 500 ms on a closed peer window): the connection is no longer
	// Selected, so the frame is not routed, yet a library that still handed it over would be right too
	opt bool
}

func errClass(err error) string {
	var rj *hsms.RejectError
	switch {
	case err == nil:
		return "nil"
	case errors.As(err, &rj):
		return "reject"
	case errors.Is(err, hsms.ErrT3Timeout):
		return "timeout"
	case errors.Is(err, hsms.ErrConnClosed):
		return "closed"
	case errors.Is(err, context.Canceled), errors.Is(err, context.DeadlineExceeded):
		return "ctx"
	case errors.Is(err, hsms.ErrNotSelectedState):
		return "notselected"
	case errors.Is(err, hsms.ErrNotOpen):
		return "notopen"
	default:
		return "other:" + err.Error()
	}
}

func (h *harness) final(reason string) {
	w := h.w
	r := h.r
	// --- map calls to the primaries the peer saw
	type prim struct {
		f refhsms.RxFrame
		c *refhsms.Conn
	}
	byToken := map[string]prim{}
	for _, c := range r.P.Conns {
		for _, f := range c.Rx {
			if f.H.SType == refhsms.STData && f.H.PType == 0 {
				if tok, ok := refhsms.ParseASCII(f.Body); ok {
					if _, dup := byToken[tok]; dup {
						w.Fail("DUP_ON_WIRE", "token %s appeared twice on the wire", tok)

						return
					}
					byToken[tok] = prim{f, c}
				}
			}
		}
	}
	// generation end times as the library end can observe them
	genEnd := func(c *refhsms.Conn) time.Duration {
		end := time.Duration(-1)
		upd := func(t time.Duration) {
			if t >= 0 && (end < 0 || t < end) {
				end = t
			}
		}
		if c.RST || c.EOF {
			upd(c.EOFAt)
		}
		// FIN from the peer delivered to the library
		if at := c.L.ToLib().FinDeliveredAt(); at >= 0 {
			upd(at)
		}
		if h.closedAt > 0 && h.closedAt >= c.OpenedAt {
			t := h.closedAt
			// A graceful Close first attempts the courtesy Separate, a write bounded by 500 ms; with the
			// peer's window closed (slow-write fault) that write takes its full bound before the
			// generation is torn down. The generation then ends when the library closes the socket.
			if ca := c.L.A.ClosedAt; h.w.Faults["slow-write"] > 0 && ca > t && ca <= t+501*time.Millisecond {
				t = ca
			}
			upd(t)
		}

		return end
	}

	// closeCall: the instant the application's Close was issued, if this connection was open then
	closeCall := func(c *refhsms.Conn) time.Duration {
		if h.closedAt > 0 && h.closedAt >= c.OpenedAt {
			return h.closedAt
		}

		return -1
	}

	if reason != "done" {
		for _, c := range h.calls {
			if !c.Done {
				w.Fail("BLOCKED", "call %s started at %v never returned (run ended: %s at %v)", c.ID, c.TCall, reason, w.Now())

				return
			}
		}
	}

	returnedTok := map[string]*call{} // reply token -> call that returned it
	for _, c := range h.calls {
		if !c.Done {
			continue
		}
		cls := errClass(c.Err)
		if c.Err == nil && c.Reply == nil {
			p, seen := byToken[c.Token]
			cause := "no frame with these system bytes was ever sent by the peer"
			if seen {
				for _, ti := range h.sent {
					if ti.forSys == p.f.H.Sys && ti.kind == "ctrl" {
						cause = fmt.Sprintf("control-rsp(stype=%d)-sysbytes==open-data-txn", ti.tx.H.SType)
					}
				}
			}
			w.Fail("NIL_NIL", "call %s returned (nil, nil): %s", c.ID, cause)

			return
		}
		p, onWire := byToken[c.Token]
		if !onWire {
			w.Probe("call_never_on_wire_" + strings.SplitN(cls, ":", 2)[0])
			// the primary never (fully) reached the peer: only errors are legal
			if c.Err == nil {
				w.Fail("PHANTOM_REPLY", "call %s returned a reply but its primary never reached the peer", c.ID)

				return
			}
			switch cls {
			case "timeout":
				// legal only if the frame was written but lost in flight (reset); checked loosely:
				// T3 must still have elapsed since the call
				if c.TRet-c.TCall < h.sc.T3 {
					w.Fail("EARLY_T3", "call %s: T3 timeout after %v < T3=%v (primary not seen by peer)", c.ID, c.TRet-c.TCall, h.sc.T3)

					return
				}
			case "reject":
				w.Fail("PHANTOM_REJECT", "call %s returned a reject but its primary never reached the peer", c.ID)

				return
			}

			continue
		}
		sys := p.f.H.Sys
		tw := p.f.WrittenAt
		if tw < 0 {
			tw = p.f.At
		}
		// candidate completing events
		var evs []event
		for _, ti := range h.sent {
			if ti.forSys != sys || ti.tx.C != p.c {
				continue
			}
			at := ti.tx.DeliveredAt()
			if at < 0 || at < tw {
				continue
			}
			opt := false
			if cc := closeCall(p.c); cc >= 0 && at > cc {
				opt = true
			}
			switch ti.kind {
			case "reply":
				evs = append(evs, event{at, "reply", ti, opt})
			case "reject":
				evs = append(evs, event{at, "reject", ti, opt})
			}
		}
		evs = append(evs, event{tw + h.sc.T3, "timeout", nil, false})
		if ge := genEnd(p.c); ge >= 0 {
			evs = append(evs, event{ge, "closed", nil, false})
		}
		if c.CtxAt >= 0 {
			// the write is not bound by the caller's context: a context that ends while the primary is
			// still being written (peer window closed) is noticed when the write returns
			at := c.CtxAt
			if at < tw {
				at = tw
			}
			evs = append(evs, event{at, "ctx", nil, false})
		}
		sort.SliceStable(evs, func(i, j int) bool { return evs[i].at < evs[j].at })
		// the first event that MUST complete the call; optional ones before it may have done so earlier
		first := time.Duration(-1)
		for _, e := range evs {
			if !e.opt {
				first = e.at

				break
			}
		}
		if c.TRet < first {
			for _, e := range evs {
				if e.opt && e.at == c.TRet {
					first = e.at // completed by an optional event: judged at that instant
					w.Probe("completed_by_frame_after_close_call")

					break
				}
			}
		}
		// the outcome must be justified by an event at the first completing instant
		var got string
		var gotTok string
		if c.Err == nil || (c.Reply != nil && cls != "reject") {
			got = "reply"
			body := c.Reply.AppendBodyTo(nil)
			gotTok, _ = tokOf(body)
			hb := c.Reply.HeaderBytes()
			rh := refhsms.Unpack(hb[:])
			if rh.Sys != sys {
				w.Fail("WRONG_REPLY", "call %s (sys %d) returned a message with system bytes %d (%s)", c.ID, sys, rh.Sys, rh)

				return
			}
			if rh.W() || rh.Function()%2 != 0 {
				w.Fail("PRIMARY_AS_REPLY", "call %s returned a message that is not a secondary: %s", c.ID, rh)

				return
			}
			if prev := returnedTok[gotTok]; prev != nil {
				w.Fail("REPLY_TWICE", "reply %s was returned to both %s and %s", gotTok, prev.ID, c.ID)

				return
			}
			returnedTok[gotTok] = c
		} else {
			got = cls
		}
		w.Probe("outcome_" + strings.SplitN(got, ":", 2)[0])
		if len(evs) > 1 && evs[0].at == evs[1].at {
			w.Probe("tie_two_causes_same_instant")
		}
		ok := false
		var just []string
		for _, e := range evs {
			if e.at != first {
				continue
			}
			just = append(just, e.class)
			if e.class != got {
				continue
			}
			switch got {
			case "reply":
				if e.ti.token == gotTok {
					ok = true
				}
			case "reject":
				var rj *hsms.RejectError
				errors.As(c.Err, &rj)
				if rj.Reason == e.ti.tx.H.B3 {
					ok = true
				}
			default:
				ok = true
			}
		}
		if got == "reply" && !ok {
			// any reply frame for this transaction that had been delivered by the return instant is
			// "its own reply" (e.g. the second of two duplicates delivered in the same instant)
			for _, e := range evs {
				if e.class == "reply" && e.ti.token == gotTok && e.at <= c.TRet && e.at == first {
					ok = true
				}
			}
		}
		if strings.HasPrefix(got, "other:") || got == "notselected" || got == "notopen" {
			// write failure / gate refusal: legal only when the link was going down or not selected
			// around the call; the frame did reach the peer here, so a gate refusal is impossible
			if got == "notselected" || got == "notopen" {
				w.Fail("BAD_OUTCOME", "call %s: primary is on the wire but the call returned %v", c.ID, c.Err)

				return
			}
			if ge := genEnd(p.c); ge < 0 || ge > c.TRet {
				w.Fail("BAD_OUTCOME", "call %s returned %v while its connection was healthy", c.ID, c.Err)

				return
			}

			continue
		}
		if !ok {
			w.Fail("OUTCOME", "call %s (sys %d, written %v, T3 %v) returned %s at %v; first completing events at %v: %v (all: %s)",
				c.ID, sys, tw, h.sc.T3, describeGot(got, gotTok, c.Err), c.TRet, first, just, describeEvents(evs))

			return
		}
		if got == "reply" && h.badTok[gotTok] != (c.Err != nil) {
			w.Fail("BODY_VERDICT", "call %s returned reply %s with error %v; the body the peer sent is valid SECS-II: %v (a malformed reply is returned to its sender together with the decode error, a valid one without)", c.ID, gotTok, c.Err, !h.badTok[gotTok])

			return
		}
		if c.TRet != first {
			w.Fail("LATE_RETURN", "call %s: outcome %s was due at %v but the call returned at %v", c.ID, got, first, c.TRet)

			return
		}
	}

	h.checkRouting(byTokenSys(byToken), returnedTok, genEnd, closeCall)
	h.checkSysUnique()
}

func byTokenSys[T any](m map[string]T) map[string]T { return m }

func describeGot(got, tok string, err error) string {
	if got == "reply" {
		return "reply " + tok
	}

	return fmt.Sprintf("%s (%v)", got, err)
}

func describeEvents(evs []event) string {
	var sb strings.Builder
	for _, e := range evs {
		fmt.Fprintf(&sb, "[%v %s", e.at, e.class)
		if e.ti != nil {
			fmt.Fprintf(&sb, " %s", e.ti.token)
		}
		sb.WriteString("] ")
	}

	return sb.String()
}

// checkRouting: every well-formed data frame the peer delivered while the session was selected
// reaches exactly one recipient (a waiting sender, or every handler once, in arrival order);
// duplicates of an answered transaction may be dropped.
func (h *harness) checkRouting(_ any, returnedTok map[string]*call, genEnd, closeCall func(*refhsms.Conn) time.Duration) {
	w := h.w
	if w.Viol != nil {
		return
	}
	nh := 2
	perHandler := make([][]string, nh)
	count := map[string][]int{}
	for _, d := range h.r.Deliveries {
		tok, ok := tokOf(d.Body)
		if !ok {
			continue
		}
		perHandler[d.Handler] = append(perHandler[d.Handler], tok)
		if count[tok] == nil {
			count[tok] = make([]int, nh)
		}
		count[tok][d.Handler]++
	}
	// expected arrival order of handler-delivered tokens
	var order []string
	for _, ti := range h.sent {
		if ti.token == "" {
			continue
		}
		at := ti.tx.DeliveredAt()
		conn := ti.tx.C
		ge := genEnd(conn)
		delivered := at >= 0 && (ge < 0 || at < ge)
		tie := at >= 0 && ge >= 0 && at == ge
		toSender := returnedTok[ti.token] != nil
		cnt := count[ti.token]
		handlerAll := cnt != nil
		for _, c := range cnt {
			if c != 1 {
				handlerAll = false
			}
		}
		handlerAny := false
		for _, c := range cnt {
			if c > 0 {
				handlerAny = true
			}
		}
		switch {
		case toSender && handlerAny:
			w.Fail("DOUBLE_DELIVERY", "frame %s was returned to sender %s and also delivered to handlers", ti.token, returnedTok[ti.token].ID)

			return
		case handlerAny && !handlerAll:
			w.Fail("HANDLER_FANOUT", "frame %s: handler delivery counts %v (want exactly once each)", ti.token, cnt)

			return
		case !delivered && !tie && (toSender || handlerAny):
			w.Fail("GHOST_DELIVERY", "frame %s was never delivered to the library end but was received by the application", ti.token)

			return
		case delivered && !toSender && !handlerAny:
			// legal only as a discarded duplicate / late tie for an answered or just-ended transaction
			if h.mayDiscard(ti, at) {
				continue
			}
			if cc := closeCall(conn); cc >= 0 && at >= cc {
				continue // delivered after Close was issued: the session is no longer Selected
			}
			w.Fail("LOST_MESSAGE", "data frame %s (%s, sys %d) delivered to the library at %v while selected reached no recipient", ti.token, ti.kind, ti.forSys, at)

			return
		}
		if handlerAny {
			order = append(order, ti.token)
		}
	}
	// arrival order per handler (order of delivery to the library == order of transmission per connection)
	sort.SliceStable(order, func(i, j int) bool { return false })
	for hi := 0; hi < nh; hi++ {
		want := deliveredOrder(h.sent, count)
		got := perHandler[hi]
		if len(got) != len(want) {
			w.Fail("HANDLER_ORDER", "handler %d saw %d messages, expected %d", hi, len(got), len(want))

			return
		}
		for i := range got {
			if got[i] != want[i] {
				w.Fail("HANDLER_ORDER", "handler %d: position %d is %s, arrival order says %s", hi, i, got[i], want[i])

				return
			}
		}
	}
}

func deliveredOrder(sent []*txInfo, count map[string][]int) []string {
	type it struct {
		at  time.Duration
		gen int
		off int
		tok string
	}
	var xs []it
	for _, ti := range sent {
		if ti.token == "" || count[ti.token] == nil {
			continue
		}
		xs = append(xs, it{ti.tx.DeliveredAt(), ti.tx.Gen, ti.tx.EndOff, ti.token})
	}
	sort.SliceStable(xs, func(i, j int) bool {
		if xs[i].gen != xs[j].gen {
			return xs[i].gen < xs[j].gen
		}

		return xs[i].off < xs[j].off
	})
	out := make([]string, len(xs))
	for i, x := range xs {
		out[i] = x.tok
	}

	return out
}

// mayDiscard: a reply-like frame may vanish when its transaction already had a reply (duplicate)
// or when it arrived at the very instant the waiting call completed otherwise (tie).
func (h *harness) mayDiscard(ti *txInfo, at time.Duration) bool {
	if ti.kind != "reply" {
		return false
	}
	for _, c := range h.calls {
		if !c.Done {
			return true // run ended with the call still waiting: frame may sit in its channel
		}
	}
	// find the call of that transaction
	for _, other := range h.sent {
		_ = other
	}
	for _, c := range h.calls {
		if c.Reply == nil && c.Err == nil {
			continue
		}
		// transaction identity: the call whose primary carried ti.forSys
		if h.callSys(c) != ti.forSys {
			continue
		}
		if at <= c.TRet {
			// arrived while (or exactly when) the call was still registered: the call has/had
			// another completion; this frame is a duplicate/tie
			return true
		}
	}

	return false
}

func (h *harness) callSys(c *call) uint32 {
	for _, pc := range h.r.P.Conns {
		for _, f := range pc.Rx {
			if f.H.SType == refhsms.STData {
				if tok, ok := refhsms.ParseASCII(f.Body); ok && tok == c.Token {
					return f.H.Sys
				}
			}
		}
	}

	return 0
}

// checkSysUnique: system bytes of concurrently open library-originated transactions are distinct.
func (h *harness) checkSysUnique() {
	w := h.w
	if w.Viol != nil {
		return
	}
	type iv struct {
		from, to time.Duration
		what     string
	}
	open := map[uint32][]iv{}
	for _, pc := range h.r.P.Conns {
		for _, f := range pc.Rx {
			if f.H.PType != 0 {
				continue
			}
			var to time.Duration = -1
			what := f.H.String()
			switch {
			case f.H.SType == refhsms.STData && f.H.W():
				tok, _ := refhsms.ParseASCII(f.Body)
				for _, c := range h.calls {
					if c.Token == tok && c.Done {
						to = c.TRet
					}
				}
				if to < 0 {
					to = w.Now()
				}
			case f.H.SType == refhsms.STSelectReq || f.H.SType == refhsms.STLinktestReq:
				to = f.At + h.sc.T6
			default:
				continue
			}
			for _, o := range open[f.H.Sys] {
				if f.At < o.to && o.from < to {
					w.Fail("SYSBYTES_REUSED", "system bytes %d used by two concurrently open transactions: %s and %s", f.H.Sys, o.what, what)

					return
				}
			}
			open[f.H.Sys] = append(open[f.H.Sys], iv{f.At, to, what})
		}
	}
}
