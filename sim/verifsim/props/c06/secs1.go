package c06

// Configuration "secs1": the reply-correlation property over the SECS-I transport. One real secs1
// connection (either role, dialing or listening) with 1-3 concurrent senders of W-bit primaries
// against the independent E4 reference peer, which for every primary does one of: reply at once;
// reply and then retransmit the identical block (as if the library's ACK had been lost: an E4
// duplicate, to be acknowledged and discarded); reply after T3; never reply; reply with system bytes
// nobody is waiting for; and in between sends primaries of its own, some of them retransmitted too.
//
// Oracle (every message carries a unique token):
//   - a call returns its OWN reply when that reply was acknowledged by the library clearly inside
//     T3 of the moment the primary's last block was acknowledged, the T3 error when no reply was
//     acknowledged until clearly after, never another transaction's message, never (nil, nil);
//   - every other intact message the library acknowledged (late replies, replies to nobody, the
//     peer's primaries) reaches every handler exactly once, in arrival order; a retransmitted
//     duplicate reaches nobody: neither a second return to the sender nor the handlers;
//   - the system bytes of the primaries open at the same time are pairwise different.

import (
	"context"
	"errors"
	"fmt"
	"strings"
	"time"

	"github.com/arloliu/go-secs/v2/hsms"
	"github.com/arloliu/go-secs/v2/secs2"
	"github.com/arloliu/go-secs/v2/verifsim/core"
	"github.com/arloliu/go-secs/v2/verifsim/refe4"
	"github.com/arloliu/go-secs/v2/verifsim/refhsms"
	"github.com/arloliu/go-secs/v2/verifsim/rig"
	"github.com/arloliu/go-secs/v2/verifsim/simnet"
)

const (
	s1Reply = iota
	s1ReplyDup
	s1Late
	s1Never
	s1WrongSys
	s1Paced // a four-block reply whose blocks are T4/2.7 apart: every gap inside T4, the whole message not
	nS1Peer
)

var s1PeerNames = []string{"reply", "reply+retransmitted-duplicate", "reply-after-T3", "never", "reply-with-foreign-system-bytes", "paced-multi-block-reply"}

type s1Call struct {
	Tok    string
	Sys    uint32
	Mode   int
	TCall  time.Duration
	TWrite time.Duration // the peer acknowledged the primary's last block (+ line latency)
	TRet   time.Duration
	Err    error
	Reply  string
	NilNil bool
	Done   bool
	// the reply as the peer sent it: when the library's ACK for it came back (-1 = never sent / never ACKed)
	ReplyAck time.Duration
}

type s1Harness struct {
	w      *core.World
	r      *rig.Rig1
	p      *refe4.Peer
	asm    *refe4.Assembler
	equip  bool
	device uint16
	T3     time.Duration
	modes  []int
	nSend  int
	per    int
	unsol  int

	calls    map[string]*s1Call
	order    []*s1Call
	open     map[uint32]string // system bytes of primaries the peer has seen and not answered
	expected []string          // tokens that must reach the handlers, in arrival order
	handled  [2][]string
	inSeq    uint32
	peerUp   bool
	pacing   bool
	deferred []func()
	done     int
	finished bool
	stop     bool
}

func buildSECS1() core.BuildFunc {
	return func(w *core.World) *core.Scenario {
		t := w.T
		h := &s1Harness{w: w, calls: map[string]*s1Call{}, open: map[uint32]string{}}
		active := t.Choose("scn", 2) == 1
		h.equip = t.Choose("scn", 2) == 1
		h.device = uint16(t.Choose("scn", 32768))
		h.T3 = []time.Duration{300 * time.Millisecond, 150 * time.Millisecond, 2 * time.Second}[t.Choose("scn", 3)]
		h.nSend = 1 + t.Choose("scn", 3)
		h.per = 1 + t.Choose("scn", 4)
		h.unsol = t.Choose("scn", 4)
		for i := 0; i < 8; i++ {
			h.modes = append(h.modes, t.Weighted("scn", 5, 3, 2, 2, 1, 2))
		}
		h.r = rig.NewSECS1(w, rig.Opts1{Active: active, Equip: h.equip, Device: h.device, T1: 40 * time.Millisecond, T2: 100 * time.Millisecond, T3: h.T3, T4: 400 * time.Millisecond,
			T5: 300 * time.Millisecond, Retry: 2, BackoffInit: 30 * time.Millisecond, BackoffMult: 2, CloseTimeout: time.Second})
		r := h.r
		// two handlers, to check the fan-out
		for hi := 0; hi < 2; hi++ {
			hi := hi
			r.C.AddDataMessageHandler(func(m *hsms.DataMessage, ep hsms.SECS2Endpoint) {
				txt, _ := refhsms.ParseASCII(m.AppendBodyTo(nil))
				h.handled[hi] = append(h.handled[hi], txt)
			})
		}
		h.p = refe4.New(w, !h.equip, 40*time.Millisecond, 100*time.Millisecond)
		h.asm = &refe4.Assembler{Device: h.device, ToHost: h.equip, T4: 400 * time.Millisecond}
		h.p.OnBlock = h.onBlock
		if active {
			r.N.OnConnect = func(l *simnet.Link) simnet.RawEnd {
				if h.peerUp {
					return nil
				}
				h.peerUp = true
				h.p.L = l

				return h.p
			}
		} else {
			var try func()
			try = func() {
				if h.peerUp || h.stop {
					return
				}
				if r.N.Listening(rig.Addr) {
					if l := r.N.PeerConnect(rig.Addr, h.p); l != nil {
						h.p.L = l
						h.peerUp = true

						return
					}
				}
				w.After(2*time.Millisecond, "peer-connect", try)
			}
			w.After(0, "peer-connect", try)
		}
		r.Open()
		for i := 0; i < h.nSend; i++ {
			i := i
			w.Go(fmt.Sprintf("s%d", i), func() { h.sender(i) })
		}
		var names []string
		for _, m := range h.modes {
			names = append(names, s1PeerNames[m])
		}

		return &core.Scenario{
			Desc: map[string]any{"transport": "secs1 vs scripted E4 peer", "active": active, "equip": h.equip, "device": h.device, "T3": h.T3.String(), "senders": h.nSend,
				"sendsEach": h.per, "peerPrimariesPerRound": h.unsol, "peerMix": names},
			Horizon:    120 * time.Second,
			Done:       func() bool { return h.finished && w.Idle() },
			Final:      h.final,
			Cleanup:    func() { h.stop = true; _ = r.C.Close() },
			Nontrivial: func() bool { return h.finished && len(h.order) > 0 },
		}
	}
}

// toLib sends one single-block message to the library; done gets the instant the library's ACK came
// back (or -1).
func (h *s1Harness) toLib(hd refe4.Header, text string, done func(ackAt time.Duration)) []byte {
	raw := refe4.Wire(hd, refhsms.ASCII(text))
	h.sendRaw(raw, done)

	return raw
}

// sendRaw transmits one block; while a paced multi-block message is on its way nothing else is put
// between its blocks (an E4 receiver assembles one message per direction at a time).
func (h *s1Harness) sendRaw(raw []byte, done func(ackAt time.Duration)) {
	if h.pacing {
		h.deferred = append(h.deferred, func() { h.sendRaw(raw, done) })

		return
	}
	h.p.SendBlock(raw, nil, nil, func(res refe4.TxResult) {
		at := time.Duration(-1)
		if res.Outcome == "ack" {
			at = res.AnswerAt
		}
		if done != nil {
			done(at)
		}
	})
}

func (h *s1Harness) onBlock(b refe4.RxBlock) {
	if !b.Valid || b.Answer != refe4.ACK {
		return
	}
	k := len(h.asm.Out)
	h.asm.Feed(b.H, b.Body, b.At)
	if len(h.asm.Out) == k {
		return
	}
	m := h.asm.Out[len(h.asm.Out)-1]
	if !m.H.W || m.H.Stream == 9 {
		return
	}
	w := h.w
	tok, _ := refhsms.ParseASCII(m.Body)
	c := h.calls[tok]
	if c == nil {
		return
	}
	if other, dup := h.open[m.H.Sys]; dup {
		w.Fail("SYSBYTES_REUSED", "system bytes %d are used by two primaries open at the same time: %s and %s", m.H.Sys, other, tok)

		return
	}
	h.open[m.H.Sys] = tok
	c.Sys = m.H.Sys
	c.TWrite = w.Now() + time.Millisecond
	c.ReplyAck = -1
	rh := refe4.Header{Device: h.device, R: !m.H.R, Stream: m.H.Stream, Func: m.H.Func + 1, Num: 1, E: true, Sys: m.H.Sys}
	text := "re:" + tok
	answered := func(at time.Duration) {
		c.ReplyAck = at
		delete(h.open, m.H.Sys)
	}
	c.Mode = h.modes[int(m.H.Sys)%len(h.modes)]
	if c.Mode == s1Paced && h.T3 < time.Second {
		c.Mode = s1Reply // a paced reply takes longer than a short T3
	}
	switch c.Mode {
	case s1Paced:
		// text of ~800 bytes: four blocks, 150 ms apart (T4 is 400 ms): 450 ms in all
		text = "re:" + tok
		full := refhsms.ASCII(text + "|" + strings.Repeat("p", 800))
		var blocks [][]byte
		for off, n := 0, 1; off < len(full); off, n = off+244, n+1 {
			end := off + 244
			if end > len(full) {
				end = len(full)
			}
			bh := rh
			bh.Num, bh.E = uint16(n), end == len(full)
			blocks = append(blocks, refe4.Wire(bh, full[off:end]))
		}
		var sendK func(k int)
		release := func() {
			h.pacing = false
			d := h.deferred
			h.deferred = nil
			for _, f := range d {
				f()
			}
		}
		sendK = func(k int) {
			if h.p.Dead {
				return
			}
			if k == 0 {
				if h.pacing {
					h.deferred = append(h.deferred, func() { sendK(0) })

					return
				}
				h.pacing = true
			}
			h.p.SendBlock(blocks[k], nil, nil, func(res refe4.TxResult) {
				if res.Outcome != "ack" {
					release()

					return
				}
				if k == len(blocks)-1 {
					answered(res.AnswerAt)
					w.Probe("paced_multi_block_reply_acknowledged")
					release()

					return
				}
				w.After(150*time.Millisecond, "paced-block", func() { sendK(k + 1) })
			})
		}
		sendK(0)
	case s1Reply:
		h.toLib(rh, text, answered)
	case s1ReplyDup:
		raw := h.toLib(rh, text, answered)
		// the identical block again (our ACK "was lost"): an E4 duplicate
		h.sendRaw(raw, func(at time.Duration) {
			if at < 0 && !h.p.Dead {
				w.Fail("DUPLICATE_ANSWER", "the library did not acknowledge the retransmitted duplicate of reply %s (a duplicate block is acknowledged and discarded)", text)
			}
			w.Probe("duplicate_reply_block_retransmitted")
		})
	case s1Late:
		w.After(h.T3+30*time.Millisecond, "late-reply", func() {
			if !h.p.Dead {
				h.toLib(rh, text, func(at time.Duration) {
					delete(h.open, m.H.Sys)
					if at >= 0 {
						h.expected = append(h.expected, text) // nobody waits any more: to the handlers
					}
				})
			}
		})
	case s1Never:
		w.After(h.T3+30*time.Millisecond, "forget", func() { delete(h.open, m.H.Sys) })
	case s1WrongSys:
		fh := rh
		fh.Sys = 0x7F000000 + m.H.Sys
		ft := "foreign:" + tok
		h.toLib(fh, ft, func(at time.Duration) {
			if at >= 0 {
				h.expected = append(h.expected, ft)
			}
		})
		w.After(h.T3+30*time.Millisecond, "forget", func() { delete(h.open, m.H.Sys) })
	}
}

func (h *s1Harness) sender(si int) {
	w := h.w
	C := h.r.C
	for !h.r.Selected() && !h.stop {
		core.Sleep(2 * time.Millisecond)
	}
	for i := 0; i < h.per && !h.stop; i++ {
		core.Sleep(time.Duration(w.T.Choose("app", 30)) * time.Millisecond)
		c := &s1Call{Tok: fmt.Sprintf("k%d-%d", si, i), TCall: w.Now(), ReplyAck: -1, TWrite: -1}
		h.calls[c.Tok] = c
		h.order = append(h.order, c)
		rep, err := C.SendDataMessage(context.Background(), byte(1+si), 1, true, secs2.A(c.Tok))
		c.TRet, c.Err, c.Done = w.Now(), err, true
		if rep != nil {
			c.Reply, _ = refhsms.ParseASCII(rep.AppendBodyTo(nil))
		}
		c.NilNil = rep == nil && err == nil
		w.Logf("call %s err=%v reply=%q", c.Tok, err, c.Reply)
		// primaries of the peer's own, some retransmitted
		if si == 0 {
			for k := 0; k < h.unsol; k++ {
				h.inSeq++
				hd := refe4.Header{Device: h.device, R: !h.equip, Stream: 6, Func: 11, Num: 1, E: true, Sys: 0x50000000 + h.inSeq}
				txt := fmt.Sprintf("evt%d", h.inSeq)
				raw := h.toLib(hd, txt, func(at time.Duration) {
					if at >= 0 {
						h.expected = append(h.expected, txt)
					}
				})
				if w.T.Choose("peer", 3) == 0 {
					h.sendRaw(raw, nil)
					w.Probe("duplicate_primary_block_retransmitted")
				}
			}
		}
	}
	h.done++
	if h.done == h.nSend {
		// let late replies and the peer's queue drain
		for i := 0; i < 400 && (h.p.Busy() || len(h.open) > 0) && !h.stop; i++ {
			core.Sleep(5 * time.Millisecond)
		}
		core.Sleep(50 * time.Millisecond)
		h.finished = true
	}
}

func (h *s1Harness) final(reason string) {
	w := h.w
	if !h.finished {
		for _, c := range h.order {
			if !c.Done {
				w.Fail("BLOCKED", "call %s started at %v never returned (run ended: %s)", c.Tok, c.TCall, reason)

				return
			}
		}
		w.Fail("BLOCKED", "the scenario did not finish (%s)", reason)

		return
	}
	slack := 5 * time.Millisecond
	for _, c := range h.order {
		if c.NilNil {
			w.Fail("NIL_NIL", "call %s returned neither a reply nor an error", c.Tok)

			return
		}
		if c.TWrite < 0 {
			if c.Err == nil {
				w.Fail("PHANTOM_REPLY", "call %s returned %q but its primary never reached the peer", c.Tok, c.Reply)

				return
			}

			continue
		}
		deadline := c.TWrite + h.T3
		inTime := c.ReplyAck >= 0 && c.ReplyAck < deadline-slack
		tooLate := c.ReplyAck < 0 || c.ReplyAck > deadline+slack
		switch {
		case c.Err == nil:
			got := c.Reply
			if i := strings.IndexByte(got, '|'); i >= 0 {
				got = got[:i]
			}
			if got != "re:"+c.Tok {
				w.Fail("WRONG_REPLY", "call %s (system bytes %d, peer behaviour %s) returned %q; its own reply is %q", c.Tok, c.Sys, s1PeerNames[c.Mode], c.Reply, "re:"+c.Tok)

				return
			}
			if tooLate && c.Mode != s1Reply && c.Mode != s1ReplyDup {
				w.Fail("PHANTOM_REPLY", "call %s returned its reply although the peer sent none inside T3 (behaviour %s)", c.Tok, s1PeerNames[c.Mode])

				return
			}
			w.Probe("outcome_reply")
		case errors.Is(c.Err, hsms.ErrT3Timeout):
			if inTime {
				w.Fail("OUTCOME", "call %s (system bytes %d) returned the T3 error at %v although the library acknowledged its own reply at %v — %v before T3 (%v) was up (primary acknowledged at %v; peer behaviour %s)",
					c.Tok, c.Sys, c.TRet, c.ReplyAck, deadline-c.ReplyAck, h.T3, c.TWrite, s1PeerNames[c.Mode])

				return
			}
			if c.TRet > deadline+slack+time.Millisecond {
				w.Fail("LATE_RETURN", "call %s: the T3 error was due at %v but the call returned at %v", c.Tok, deadline, c.TRet)

				return
			}
			w.Probe("outcome_timeout")
		default:
			w.Fail("OUTCOME", "call %s failed with %v on a healthy line (peer behaviour %s)", c.Tok, c.Err, s1PeerNames[c.Mode])

			return
		}
	}
	// ---- routing: everything else the library acknowledged reaches every handler exactly once
	want := strings.Join(h.expected, ",")
	for hi := 0; hi < 2; hi++ {
		if got := strings.Join(h.handled[hi], ","); got != want {
			w.Fail("ROUTING", "handler %d received [%s]; the messages the library acknowledged that no sender was waiting for are [%s] (a retransmitted duplicate block reaches nobody; a reply returned to its sender is not also delivered to the handlers)", hi, got, want)

			return
		}
	}
	if len(h.expected) > 0 {
		w.Probe("unclaimed_messages_delivered_once_each")
	}
}
