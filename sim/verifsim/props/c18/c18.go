// Package c18 decides property C18: over a line that drops or delays characters, corrupts a single
// character of a block, NAKs blocks, or has both ends requesting to send at once, every message
// whose send call succeeds is delivered to the peer's handlers exactly once and intact, in order
// per direction; nothing is delivered twice or altered; a block is attempted at most
// retry-limit+1 times, after which the send fails and the link is re-established; contention
// resolves with the equipment sending first, without deadlock.
//
// Topology: two REAL secs1 connections (host/slave and equipment/master) joined by the simulated
// line, with a middlebox that applies the faults to the characters crossing it.
package c18

import (
	"bytes"
	"context"
	"errors"
	"fmt"
	"strings"
	"time"

	"github.com/arloliu/go-secs/v2/hsms"
	"github.com/arloliu/go-secs/v2/secs1"
	"github.com/arloliu/go-secs/v2/secs2"
	"github.com/arloliu/go-secs/v2/verifsim/core"
	"github.com/arloliu/go-secs/v2/verifsim/refe4"
	"github.com/arloliu/go-secs/v2/verifsim/refhsms"
	"github.com/arloliu/go-secs/v2/verifsim/rig"
	"github.com/arloliu/go-secs/v2/verifsim/simnet"
)

const (
	enq = 0x05
	eot = 0x04
	ack = 0x06
	nak = 0x15
)

type msg struct {
	Tok    string
	Side   int // 0 host -> equipment, 1 equipment -> host
	Sender int
	Body   []byte // expected SECS-II encoding
	Blocks int
	TCall  time.Duration
	TRet   time.Duration
	Err    error
	Done   bool
}

type scenario struct {
	HostActive bool
	Device     uint16
	Retry      int
	SlowLine   bool
	Coalesce   int // 0 every write is its own segment; 1 writes join a segment still in flight; 2 per write
	T1, T2, T4 time.Duration
	Senders    [2]int
	PerSender  int
	FaultRate  int // 1/FaultRate of the writes is faulted while faults are on (0 = clean)
	FaultsFor  time.Duration
	Sizes      []int
	// Bias: faults are aimed at the contention path — the block the equipment sends while the host
	// has yielded, and the host's own blocks while its send is being retried — instead of uniformly
	Bias bool
}

type lineEvent struct {
	at      time.Duration
	side    int    // who wrote it: 0 host, 1 equipment
	kind    string // "enq", "eot", "ack", "nak", "block", "other"
	hdr     [10]byte
	faulted bool
	num     int
	sys     uint32
}

type harness struct {
	w  *core.World
	sc scenario
	n  *simnet.Net
	r  [2]*rig.Rig1 // 0 host, 1 equipment

	msgs         []*msg
	byTok        map[string]*msg
	doneSend     [2]int
	faultsOn     bool
	faultsOffAt  time.Duration
	events       []lineEvent
	attempts     map[[10]byte]int
	maxAttempts  int
	delivered    [2][]string // tokens in delivery order, per receiving side
	finalOK      [2]bool
	finished     bool
	stop         bool
	inBlockFault bool
	cutAt        int
	delayChar    bool
	quietUntil   time.Duration
	// desync windows: from a fault that DELAYS characters beyond a protocol timer until the line has
	// next been silent for 2*T2+T1 (every engine idle, every stale character consumed). Inside such a
	// window the line carries a surplus handshake character, every exchange is answered by the
	// previous exchange's character, and SEMI E4 — which numbers neither EOT nor ACK — can acknowledge
	// a block the other end never took (seen in the thorough tier: a stale EOT lets the host transmit
	// while the master, which has just requested the line itself, discards everything but EOT; the
	// stale ACK of a duplicate then confirms the block). Exactly-once is not demanded of a message
	// whose transfer overlaps a window.
	desync    [][2]time.Duration
	lastWrite time.Duration
	pipeSide  map[*simnet.Pipe]int
	// reference E4 sender model per side (the oracle for "a block is attempted at most retry-limit+1
	// times"): attempts of the send in progress = the ENQs this end has written since the send began
	att          [2]int
	blockSent    [2]bool // a block was written since this end's last ENQ
	hostYielding bool
	staleAck     [2]bool // an ACK is on its way to this end although it is not waiting for one
	curPipe      [2]*simnet.Pipe
	curHdr       [2][10]byte
	fresh        [2]bool       // the previous send of this end ended at a known point (its block was ACKed / new connection)
	lastBlock    [2]*lineEvent // last block written by each side (for attributing the other side's ACK)
	// accepted[side][sys][blockNo] = instant the receiving end ACKed that block of a message sent by side
	accepted         map[int]map[uint32]map[int]time.Duration
	sysTok           map[int]map[uint32]string
	lastFaultedWrite int
}

func genScenario(t *core.Tape, faulty bool) scenario {
	sc := scenario{}
	sc.HostActive = t.Choose("scn", 2) == 1
	sc.Device = uint16(t.Choose("scn", 32768))
	sc.Retry = t.Choose("scn", 6)
	sc.T1 = 40 * time.Millisecond
	sc.T2 = []time.Duration{150 * time.Millisecond, 300 * time.Millisecond}[t.Choose("scn", 2)]
	// T4 (inter-block): comfortably long, or short enough that a multi-block message slowed down by
	// retries takes longer than T4 in total while every single gap stays below it
	sc.T4 = []time.Duration{20 * time.Second, time.Second, 400 * time.Millisecond}[t.Choose("scn", 3)]
	sc.Senders = [2]int{1 + t.Choose("scn", 3), 1 + t.Choose("scn", 3)}
	sc.PerSender = 1 + t.Choose("scn", 5)
	sc.Coalesce = t.Weighted("scn", 2, 1, 1)
	sc.SlowLine = t.Choose("scn", 3) == 0
	if faulty {
		sc.FaultRate = []int{6, 12, 25}[t.Choose("scn", 3)]
		sc.FaultsFor = time.Duration(1+t.Choose("scn", 6)) * time.Second
		sc.Bias = t.Choose("scn", 2) == 1
	}
	for i := 0; i < 16; i++ {
		sc.Sizes = append(sc.Sizes, []int{0, 10, 200, 241, 242, 300, 600, 900, 1100}[t.Choose("scn", 9)])
	}

	return sc
}

// Build returns the scenario builder.
func Build(config string) core.BuildFunc {
	if config == "scripted" {
		return buildScripted()
	}

	return func(w *core.World) *core.Scenario {
		h := &harness{w: w, byTok: map[string]*msg{}, attempts: map[[10]byte]int{}, pipeSide: map[*simnet.Pipe]int{},
			accepted: map[int]map[uint32]map[int]time.Duration{0: {}, 1: {}}, sysTok: map[int]map[uint32]string{0: {}, 1: {}}}
		h.sc = genScenario(w.T, config == "faulty")
		sc := h.sc
		h.n = simnet.New(w)
		h.n.LatMin = time.Millisecond
		h.faultsOn = sc.FaultRate > 0
		mk := func(side int) *rig.Rig1 {
			active := sc.HostActive == (side == 0)

			return rig.NewSECS1(w, rig.Opts1{Active: active, Equip: side == 1, Device: sc.Device, T1: sc.T1, T2: sc.T2, T3: 30 * time.Second, T4: sc.T4, T5: 200 * time.Millisecond,
				Retry: sc.Retry, BackoffInit: 20 * time.Millisecond, BackoffMult: 2, CloseTimeout: time.Second, Net: h.n, Name: fmt.Sprint(side)})
		}
		h.r[0], h.r[1] = mk(0), mk(1)
		for side := 0; side < 2; side++ {
			side := side
			h.r[side].OnDeliver = func(m *hsms.DataMessage, ep hsms.SECS2Endpoint) { h.onDeliver(side, m) }
		}
		h.n.Mangle = h.mangle
		h.n.Seg = h.seg
		if sc.Coalesce != 0 {
			// TCP coalescing: a write made while the previous one is still in flight may reach the reader
			// in the same read (an ACK and the ENQ that follows it, a block and the next ENQ)
			h.n.Coalesce = func(*simnet.Pipe) bool {
				if sc.Coalesce == 1 || w.T.Choose("net", 2) == 1 {
					w.Probe("writes_coalesced_into_one_segment")

					return true
				}

				return false
			}
		}
		// the passive end first, then the active one
		passive, activeSide := 1, 0
		if !sc.HostActive {
			passive, activeSide = 0, 1
		}
		h.r[passive].Open()
		w.After(2*time.Millisecond, "open-active", func() { h.r[activeSide].Open() })
		if h.faultsOn {
			w.After(sc.FaultsFor, "faults-stop", func() { h.faultsOn = false; h.faultsOffAt = w.Now(); w.Logf("faults stop") })
		}
		for side := 0; side < 2; side++ {
			for s := 0; s < sc.Senders[side]; s++ {
				side, s := side, s
				w.Go(fmt.Sprintf("snd%d-%d", side, s), func() { h.sender(side, s) })
			}
		}

		return &core.Scenario{
			Desc:       h.describe(),
			Horizon:    300 * time.Second,
			Done:       func() bool { return h.finished && w.Idle() },
			Final:      h.final,
			Cleanup:    func() { h.stop = true; _ = h.r[0].C.Close(); _ = h.r[1].C.Close() },
			Nontrivial: func() bool { return len(h.msgs) > 0 && h.finished },
		}
	}
}

func (h *harness) describe() map[string]any {
	sc := h.sc

	return map[string]any{"hostActive": sc.HostActive, "device": sc.Device, "retryLimit": sc.Retry, "coalesce": sc.Coalesce, "slowLine": sc.SlowLine, "T1": sc.T1.String(), "T2": sc.T2.String(), "T4": sc.T4.String(), "sendersHost": sc.Senders[0], "sendersEquip": sc.Senders[1],
		"sendsEach": sc.PerSender, "faultRate": sc.FaultRate, "contentionBias": sc.Bias, "faultsFor": sc.FaultsFor.String()}
}

// sideOf maps a pipe to the side that WRITES into it.
func (h *harness) sideOf(p *simnet.Pipe) int {
	if s, ok := h.pipeSide[p]; ok {
		return s
	}
	// the dialer writes into a2b; the dialer is the active end
	dialerSide := 1
	if h.sc.HostActive {
		dialerSide = 0
	}
	side := 1 - dialerSide
	if strings.HasSuffix(p.Name(), "a2b") {
		side = dialerSide
	}
	h.pipeSide[p] = side

	return side
}

// mangle is the middlebox: it sees every write of either end (a 1-byte handshake character or a
// whole block) and, while faults are on, damages some of them in ways SEMI E4 is guaranteed to
// detect.
func (h *harness) mangle(p *simnet.Pipe, b []byte) []byte {
	w, t := h.w, h.w.T
	side := h.sideOf(p)
	ev := lineEvent{at: w.Now(), side: side, kind: "other"}
	isBlock := len(b) >= 13
	if isBlock {
		ev.kind = "block"
		copy(ev.hdr[:], b[1:11])
		h.attempts[ev.hdr]++
		if h.attempts[ev.hdr] > h.maxAttempts {
			h.maxAttempts = h.attempts[ev.hdr]
		}
	} else if len(b) == 1 {
		switch b[0] {
		case enq:
			ev.kind = "enq"
		case eot:
			ev.kind = "eot"
		case ack:
			ev.kind = "ack"
		case nak:
			ev.kind = "nak"
		}
	}
	// ---- reference sender model (sees what each end WRITES, before the faults)
	if h.curPipe[side] != p {
		// a new TCP generation: whatever send was in progress ended with the old one
		h.curPipe[side] = p
		h.att = [2]int{}
		h.blockSent = [2]bool{}
		h.staleAck = [2]bool{}
		h.curHdr = [2][10]byte{}
		h.fresh = [2]bool{true, true}
		h.lastBlock = [2]*lineEvent{}
	}
	switch ev.kind {
	case "enq":
		h.att[side]++
		h.blockSent[side] = false
	case "block":
		h.blockSent[side] = true
		if ev.hdr != h.curHdr[side] {
			// another block: a new send began at one of the ENQs since the last transmission of the
			// previous one. After a send is given up the engine may start the next queued one on the
			// same connection, and a send that never got the line uses exactly retry-limit+1 ENQs, so
			// the attempt number of this transmission is known modulo retry-limit+1 when the previous
			// send ended at a known point (fresh), and not at all otherwise.
			h.curHdr[side] = ev.hdr
			if h.fresh[side] && h.att[side] >= 1 {
				h.att[side] = (h.att[side]-1)%(h.sc.Retry+1) + 1
			} else {
				h.att[side] = 1
			}
		}
		h.fresh[side] = false
		if h.att[side] > h.sc.Retry+1 {
			w.Fail("ATTEMPTS", "side %d transmitted block %x in its attempt #%d (ENQs since the send of this block began): the retry limit is %d, so at most %d attempts; neither an ACK for the block, a successfully received block of the peer (contention yield) nor a new connection intervened", side, ev.hdr, h.att[side], h.sc.Retry, h.sc.Retry+1)
		}
		if h.att[side] == h.sc.Retry+1 && h.sc.Retry > 0 {
			w.Probe("block_transmitted_in_last_permitted_attempt")
		}
		ev.num = (int(b[5]&0x7F) << 8) | int(b[6])
		ev.sys = uint32(b[7])<<24 | uint32(b[8])<<16 | uint32(b[9])<<8 | uint32(b[10])
		if ev.num <= 1 {
			if txt, ok := refhsms.ParseASCII(b[11 : len(b)-2]); ok {
				if i := strings.IndexByte(txt, '|'); i > 0 {
					h.sysTok[side][ev.sys] = txt[:i]
				}
			} else if i := bytes.IndexByte(b[11:len(b)-2], '|'); i > 0 {
				// first block of a multi-block message: the item runs on into the next blocks
				body := b[11 : len(b)-2]
				j := i
				for j > 0 && body[j] != 'm' && (body[j-1] == 'm' || body[j-1] == '-' || (body[j-1] >= '0' && body[j-1] <= '9')) {
					j--
				}
				h.sysTok[side][ev.sys] = string(body[j:i])
			}
		}
	case "ack":
		// an ACK written by this end: (a) it accepted the peer's last block; (b) if it has a send of
		// its own in progress this was a successful contention yield, after which the postponed send
		// restarts as a new send request (E4 7.8.2.1)
		h.att[side] = 0
		if lb := h.lastBlock[1-side]; lb != nil && !lb.faulted {
			m := h.accepted[1-side][lb.sys]
			if m == nil {
				m = map[int]time.Duration{}
				h.accepted[1-side][lb.sys] = m
			}
			if _, dup := m[lb.num]; !dup {
				m[lb.num] = w.Now()
			}
		}
	}
	if n := len(h.desync); n > 0 && h.desync[n-1][1] < 0 && w.Now()-h.lastWrite >= 2*h.sc.T2+h.sc.T1 {
		h.desync[n-1][1] = h.lastWrite // the silence that just ended re-synchronised the line
	}
	h.lastWrite = w.Now()
	h.inBlockFault = false
	out := b
	// A late character is indistinguishable from a timely one, so after a delay fault the line
	// carries stale handshake characters for a while; SEMI E4 gives no guarantee if a second fault
	// strikes before they have been flushed by the next ENQ/EOT exchanges. Faults are therefore
	// suspended for a quiet period after every delay fault.
	rate := h.sc.FaultRate
	if h.sc.Bias && isBlock {
		switch {
		case side == 1 && h.hostYielding:
			rate = 2
		case side == 0 && h.att[0] >= 1:
			rate = 3
		}
	}
	embeds := isBlock && bytes.Contains(b, []byte("ghost|embedded"))
	if embeds && rate > 3 {
		rate = 3 // blocks whose payload holds an ENQ + block image are damaged more often
	}
	if ev.kind == "eot" && side == 0 && h.att[0] > 0 {
		h.hostYielding = true // the host grants the line although it has requested it itself
	} else if side == 0 && (ev.kind == "ack" || ev.kind == "nak") {
		if h.hostYielding && ev.kind == "nak" {
			w.Probe("failed_contention_yield")
			if h.curHdr[0] != ([10]byte{}) && !h.fresh[0] {
				w.Probe("failed_contention_yield_after_a_transmission_of_the_block")
			}
		}
		h.hostYielding = false
	}
	if h.faultsOn && h.sc.FaultRate > 0 && w.Now() >= h.quietUntil && t.Choose("fault", rate) == 0 {
		ev.faulted = true
		if isBlock {
			kind := t.Choose("fault", 5)
			if embeds && t.Choose("fault", 2) == 0 {
				kind = 4
			}
			switch kind {
			case 4: // the length byte corrupted to a smaller legal value: the receiver takes a short block (bad
				// checksum) and the rest of the real block is noise it must discard before answering
				if l := int(b[0]); l > 10 {
					out = append([]byte(nil), b...)
					out[0] = byte(10 + t.Choose("fault", l-10))
					w.Fault("length-byte-shrunk")
				} else {
					out = nil
					w.Fault("drop-block")
				}
			case 0: // one corrupted character (never the length byte)
				out = append([]byte(nil), b...)
				i := 1 + t.Choose("fault", len(b)-1)
				out[i] ^= byte(1 + t.Choose("fault", 255))
				w.Fault("flip-char")
			case 1: // the whole block is lost
				out = nil
				w.Fault("drop-block")
			case 2: // the tail is lost
				out = append([]byte(nil), b[:1+t.Choose("fault", len(b)-1)]...)
				w.Fault("truncate-block")
			default: // a pause longer than T1 inside the block — only where the late tail holds no byte that reads as a handshake character (ENQ/EOT/ACK/NAK): such a tail arrives as stray characters on the line and a stray EOT or ACK is indistinguishable from a real one
				cut := 1 + t.Choose("fault", len(b)-1)
				if !bytes.ContainsAny(b[cut:], "\x04\x05\x06\x15") {
					h.inBlockFault = true
					h.cutAt = cut
					h.quietUntil = w.Now() + h.sc.T1 + 4*h.sc.T2
					h.openDesync()
					w.Fault("delay-inside-block>T1")
				} else {
					out = nil
					w.Fault("drop-block")
				}
			}
		} else if len(b) == 1 {
			switch t.Choose("fault", 3) {
			case 0:
				out = nil
				w.Fault("drop-" + ev.kind)
			case 1:
				out = []byte{0x7E}
				if b[0] == ack && t.Choose("fault", 2) == 0 {
					out = []byte{nak}
				}
				w.Fault("replace-" + ev.kind)
			default:
				h.delayChar = true
				h.quietUntil = w.Now() + 5*h.sc.T2
				h.openDesync()
				w.Fault("delay-" + ev.kind + ">T2")
			}
		}
	}
	if ev.kind == "ack" && len(out) == 1 && out[0] == ack {
		if h.blockSent[1-side] {
			// the peer's block is acknowledged (the ACK character really goes out): its send is complete
			h.att[1-side] = 0
			h.blockSent[1-side] = false
			h.fresh[1-side] = true
		} else {
			// an ACK towards an end that is not waiting for one (it has already given that attempt up):
			// the character stays on the line and will read as the answer to its next block
			h.staleAck[1-side] = true
		}
	}
	if isBlock && h.staleAck[side] {
		h.staleAck[side] = false
		h.att[side] = 0
		h.blockSent[side] = false
		w.Probe("stale_ack_may_complete_next_block")
	}
	h.events = append(h.events, ev)
	if isBlock {
		h.lastBlock[side] = &h.events[len(h.events)-1]
	}
	if isBlock {
		w.Logf("line side=%d block num=%d E=%v sys=%x len=%d faulted=%v", side, (int(b[5]&0x7F)<<8)|int(b[6]), b[5]&0x80 != 0, b[7:11], len(b), ev.faulted)
	} else {
		w.Logf("line side=%d %s faulted=%v", side, ev.kind, ev.faulted)
	}

	return out
}

func (h *harness) seg(p *simnet.Pipe, n int) []simnet.SegPlan {
	if h.inBlockFault && h.cutAt > 0 && h.cutAt < n {
		c := h.cutAt
		h.inBlockFault = false

		return []simnet.SegPlan{{Size: c, Delay: time.Millisecond}, {Size: n - c, Delay: h.sc.T1 + 15*time.Millisecond}}
	}
	if h.delayChar {
		h.delayChar = false

		return []simnet.SegPlan{{Size: n, Delay: h.sc.T2 + 20*time.Millisecond}}
	}

	if h.sc.SlowLine && n > 12 && h.w.T.Choose("net", 3) == 0 {
		// a slow but healthy line (a serial bridge, a segmenting relay): the block arrives in pieces whose
		// gaps are each well below T1 although the whole takes longer than T1 — not a fault, nothing E4
		// has to detect
		h.w.Probe("block_dribbled_with_sub_T1_gaps")
		g := h.sc.T1 * 4 / 10
		q := n / 4

		return []simnet.SegPlan{{Size: q, Delay: time.Millisecond}, {Size: q, Delay: g}, {Size: q, Delay: g}, {Size: n - 3*q, Delay: g}}
	}

	return []simnet.SegPlan{{Size: n, Delay: time.Millisecond}}
}

func (h *harness) onDeliver(side int, m *hsms.DataMessage) {
	body := m.AppendBodyTo(nil)
	tok := ""
	if s, ok := refhsms.ParseASCII(body); ok {
		if i := strings.IndexByte(s, '|'); i > 0 {
			tok = s[:i]
		}
	}
	if tok == "final" {
		return
	}
	if hb := m.HeaderBytes(); hb[2]&0x7F == 9 && h.byTok[tok] == nil {
		// a stream-9 error report the receiving library end originated itself (for example S9F7 after a
		// block it could not place): not application data, so neither a delivery nor an alteration
		h.w.Probe("library_s9_report")

		return
	}
	h.w.Logf("deliver side=%d tok=%s", side, tok)
	mm := h.byTok[tok]
	if mm == nil {
		h.w.Fail("ALTERED", "side %d received a message that was never sent (header %x, %d body bytes, text %.20q)", side, m.HeaderBytes(), len(body), tok)

		return
	}
	if mm.Side != 1-side {
		h.w.Fail("ALTERED", "message %s was delivered to its own sender's side", tok)

		return
	}
	if !bytes.Equal(body, mm.Body) {
		h.w.Fail("ALTERED", "message %s arrived altered: %d body bytes, sent %d (first difference at %d)", tok, len(body), len(mm.Body), firstDiff(body, mm.Body))

		return
	}
	for _, d := range h.delivered[side] {
		if d == tok {
			h.w.Fail("DUPLICATE", "message %s (%d blocks) was delivered twice", tok, mm.Blocks)

			return
		}
	}
	h.delivered[side] = append(h.delivered[side], tok)
}

func (h *harness) openDesync() {
	if n := len(h.desync); n > 0 && h.desync[n-1][1] < 0 {
		return
	}
	h.desync = append(h.desync, [2]time.Duration{h.w.Now(), -1})
}

// desynced reports whether m's transfer overlapped a desync window.
func (h *harness) desynced(m *msg) bool {
	for _, d := range h.desync {
		end := d[1]
		if end < 0 {
			end = 1 << 62
		}
		if m.TRet >= d[0] && m.TCall <= end {
			return true
		}
	}

	return false
}

// t4Expired reports whether some gap between the receiver's acceptance (ACK) of two consecutive
// blocks of m exceeded T4 (less 2 ms of slack) — the one case in which E4 itself has the receiver
// drop a message all of whose blocks were acknowledged.
func (h *harness) t4Expired(m *msg) bool {
	for sys, tok := range h.sysTok[m.Side] {
		if tok != m.Tok {
			continue
		}
		acc := h.accepted[m.Side][sys]
		for n, at := range acc {
			if prev, ok := acc[n-1]; ok && n > 1 && at-prev > h.sc.T4-2*time.Millisecond {
				return true
			}
		}
	}

	return false
}

func firstDiff(a, b []byte) int {
	for i := 0; i < len(a) && i < len(b); i++ {
		if a[i] != b[i] {
			return i
		}
	}

	return min(len(a), len(b))
}

func (h *harness) sender(side, s int) {
	w := h.w
	C := h.r[side].C
	for !h.r[side].Selected() && !h.stop {
		core.Sleep(2 * time.Millisecond)
	}
	for i := 0; i < h.sc.PerSender && !h.stop; i++ {
		core.Sleep(time.Duration(w.T.Choose("app", 30)) * time.Millisecond)
		size := h.sc.Sizes[(side*7+s*3+i)%len(h.sc.Sizes)]
		tok := fmt.Sprintf("m%d-%d-%d", side, s, i)
		text := tok + "|" + strings.Repeat(string(rune('a'+(i+s)%20)), size)
		if h.sc.FaultRate > 0 && size <= 200 && w.T.Choose("app", 3) == 0 {
			// the payload itself contains what would read, on an idle line, as ENQ followed by a complete
			// well-formed block addressed to the receiver: harmless inside a block — unless a receiver that
			// has rejected a damaged block fails to discard the rest of it
			gh := refe4.Header{Device: h.sc.Device, R: side == 1, Stream: 1, Func: 1, Num: 1, E: true, Sys: 0x7777}
			text = tok + "|" + strings.Repeat("g", size%40) + "\x05" + string(refe4.Wire(gh, refhsms.ASCII("ghost|embedded")))
			w.Probe("payload_embeds_enq_and_block_image")
		}
		// avoid ENQ (0x05) anywhere in what we control; the text is printable ASCII anyway
		m := &msg{Tok: tok, Side: side, Sender: s, Body: refhsms.ASCII(text)}
		m.Blocks = (len(m.Body) + 243) / 244
		if m.Blocks == 0 {
			m.Blocks = 1
		}
		h.msgs = append(h.msgs, m)
		h.byTok[tok] = m
		m.TCall = w.Now()
		_, err := C.SendDataMessage(context.Background(), byte(1+(i%3)), byte(1+2*(s%3)), false, secs2.A(text))
		m.TRet, m.Err, m.Done = w.Now(), err, true
		w.Logf("send %s side=%d err=%v", tok, side, err)
		if err != nil {
			// the link may be re-establishing: wait for it (bounded by the harness horizon)
			for !h.r[side].Selected() && !h.stop {
				core.Sleep(5 * time.Millisecond)
			}
		}
	}
	h.doneSend[side]++
	if h.doneSend[0] == h.sc.Senders[0] && h.doneSend[1] == h.sc.Senders[1] {
		h.w.Go("finale", h.finale)
	}
}

// finale: faults are off; both directions must carry a message again (the link re-established).
func (h *harness) finale() {
	w := h.w
	h.faultsOn = false
	if h.faultsOffAt == 0 {
		h.faultsOffAt = w.Now()
	}
	bound := time.Duration(h.sc.Retry+2)*3*h.sc.T2*5 + 5*time.Second
	deadline := w.Now() + bound
	for side := 0; side < 2; side++ {
		for w.Now() < deadline && !h.finalOK[side] {
			if !h.r[side].Selected() {
				core.Sleep(5 * time.Millisecond)

				continue
			}
			if _, err := h.r[side].C.SendDataMessage(context.Background(), 9, 9, false, secs2.A("final|")); err == nil {
				h.finalOK[side] = true
			} else {
				core.Sleep(10 * time.Millisecond)
			}
		}
	}
	core.Sleep(50 * time.Millisecond)
	h.finished = true
}

func (h *harness) final(reason string) {
	w, sc := h.w, h.sc
	for _, m := range h.msgs {
		if !m.Done {
			w.Fail("DEADLOCK", "send %s (side %d, %d blocks) started at %v never returned (run ended: %s at %v)", m.Tok, m.Side, m.Blocks, m.TCall, reason, w.Now())

			return
		}
	}
	if !h.finished {
		w.Fail("DEADLOCK", "the run did not finish (reason %s)", reason)

		return
	}
	if !h.finalOK[0] || !h.finalOK[1] {
		w.Fail("NO_RECOVERY", "after the faults stopped the line did not carry a message again (host->equipment ok=%v, equipment->host ok=%v; states %v / %v)", h.finalOK[0], h.finalOK[1], h.r[0].C.State(), h.r[1].C.State())

		return
	}
	// ---- exactly once for every successful send; in order per direction
	for side := 0; side < 2; side++ {
		recv := 1 - side
		pos := map[string]int{}
		for i, tok := range h.delivered[recv] {
			pos[tok] = i
		}
		var ok []*msg
		for _, m := range h.msgs {
			if m.Side != side {
				continue
			}
			if m.Err == nil {
				if _, got := pos[m.Tok]; !got && h.t4Expired(m) {
					// E4's inter-block timer: the receiver legitimately discards a partial message when the
					// next block arrives more than T4 after the previous one, although each block was ACKed
					w.Probe("message_discarded_by_T4_between_blocks")

					continue
				}
				if _, got := pos[m.Tok]; !got && h.desynced(m) {
					w.Probe("message_lost_while_line_desynchronised_by_a_delay_fault")

					continue
				}
				if _, got := pos[m.Tok]; !got {
					w.Fail("LOST", "send %s (%d blocks) returned success at %v but the message was never delivered to the peer's handlers", m.Tok, m.Blocks, m.TRet)

					return
				}
				ok = append(ok, m)
			} else if sc.FaultRate == 0 {
				w.Fail("SEND_FAILED", "send %s failed on a fault-free line: %v", m.Tok, m.Err)

				return
			} else if !errors.Is(m.Err, secs1.ErrSendFailed) && !errors.Is(m.Err, context.Canceled) && !errors.Is(m.Err, hsms.ErrConnClosed) && !errors.Is(m.Err, hsms.ErrNotSelectedState) && !strings.Contains(m.Err.Error(), "closed") && !strings.Contains(m.Err.Error(), "reset") && !strings.Contains(m.Err.Error(), "EOF") && !strings.Contains(m.Err.Error(), "pipe") {
				w.Fail("ERROR_CLASS", "send %s failed with an undocumented error: %v", m.Tok, m.Err)

				return
			}
		}
		// order: successful sends complete one at a time (the line is half duplex), so their
		// completion order is the order on the line
		for i := 1; i < len(ok); i++ {
			a, b := ok[i-1], ok[i]
			if a.TRet > b.TRet {
				a, b = b, a
			}
			if a.TRet < b.TRet && a.Sender == b.Sender && pos[a.Tok] > pos[b.Tok] {
				w.Fail("ORDER", "messages %s and %s of one sender were delivered in the opposite order", a.Tok, b.Tok)

				return
			}
		}
		for i := 0; i < len(ok); i++ {
			for j := i + 1; j < len(ok); j++ {
				a, b := ok[i], ok[j]
				if a.TRet < b.TCall && pos[a.Tok] > pos[b.Tok] {
					w.Fail("ORDER", "message %s completed (at %v) before %s was even sent (at %v) but was delivered after it", a.Tok, a.TRet, b.Tok, b.TCall)

					return
				}
			}
		}
	}
	// ---- attempts per block: at most retry+1, restarting after each contention yield
	yields := int(h.r[0].C.BlockMetrics().ContentionYieldCount())
	for hdr, n := range h.attempts {
		if n > (sc.Retry+1)*(1+yields) {
			w.Fail("ATTEMPTS", "block %x was transmitted %d times; the retry limit is %d (so at most %d attempts, %d contention yields observed)", hdr, n, sc.Retry, sc.Retry+1, yields)

			return
		}
		if sc.FaultRate == 0 && yields == 0 && n > 1 {
			w.Fail("ATTEMPTS", "block %x was transmitted %d times on a fault-free line without contention", hdr, n)

			return
		}
	}
	// ---- contention (fault-free runs only): when both ends have requested the line, the
	// equipment's block crosses first
	if sc.FaultRate == 0 {
		pending := [2]bool{}
		for _, e := range h.events {
			switch e.kind {
			case "enq":
				pending[e.side] = true
			case "block":
				if e.side == 0 && pending[1] && pending[0] {
					w.Fail("CONTENTION", "both ends had requested the line (ENQ) and the host's block crossed first at %v", e.at)

					return
				}
				if pending[0] && pending[1] && e.side == 1 {
					w.Probe("contention_equipment_first")
				}
				pending[e.side] = false
			}
		}
		if yields > 0 {
			w.Probe("contention_yield")
		}
	}
	if h.maxAttempts > 1 {
		w.Probe("block_retransmitted")
	}
}
