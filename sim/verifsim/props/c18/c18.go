// Package c18 decides property C18: over a line that drops or delays characters, corrupts a single
// character of a block, NAKs blocks, or has both ends requesting to send at once, every message
// whose send call succeeds is delivered to the peer's handlers exactly once and intact, in order
// per direction; nothing is delivered twice or altered; a block is attempted at most
// retry-limit+1 times, after which the send fails and the link is re-established; contention
// resolves with the equipment sending first, without deadlock.
//
// Topology: two REAL secs1 connections (host/slave and equipment/master) joined by the simulated
// line, with a middlebox that applies the faults to the characters crossing it.
package c18

import (
	"bytes"
	"context"
	"errors"
	"fmt"
	"strings"
	"time"

	"github.com/arloliu/go-secs/v2/hsms"
	"github.com/arloliu/go-secs/v2/secs1"
	"github.com/arloliu/go-secs/v2/secs2"
	"github.com/arloliu/go-secs/v2/verifsim/core"
	"github.com/arloliu/go-secs/v2/verifsim/refhsms"
	"github.com/arloliu/go-secs/v2/verifsim/rig"
	"github.com/arloliu/go-secs/v2/verifsim/simnet"
)

const (
	enq = 0x05
	eot = 0x04
	ack = 0x06
	nak = 0x15
)

type msg struct {
	Tok    string
	Side   int // 0 host -> equipment, 1 equipment -> host
	Sender int
	Body   []byte // expected SECS-II encoding
	Blocks int
	TCall  time.Duration
	TRet   time.Duration
	Err    error
	Done   bool
}

type scenario struct {
	HostActive bool
	Device     uint16
	Retry      int
	T1, T2     time.Duration
	Senders    [2]int
	PerSender  int
	FaultRate  int // 1/FaultRate of the writes is faulted while faults are on (0 = clean)
	FaultsFor  time.Duration
	Sizes      []int
}

type lineEvent struct {
	at   time.Duration
	side int // who wrote it: 0 host, 1 equipment
	kind string // "enq", "eot", "ack", "nak", "block", "other"
	hdr  [10]byte
	faulted bool
}

type harness struct {
	w  *core.World
	sc scenario
	n  *simnet.Net
	r  [2]*rig.Rig1 // 0 host, 1 equipment

	msgs     []*msg
	byTok    map[string]*msg
	doneSend [2]int
	faultsOn bool
	faultsOffAt time.Duration
	events   []lineEvent
	attempts map[[10]byte]int
	maxAttempts int
	delivered [2][]string // tokens in delivery order, per receiving side
	finalOK  [2]bool
	finished bool
	stop     bool
	inBlockFault bool
	cutAt    int
	delayChar bool
	quietUntil time.Duration
	pipeSide map[*simnet.Pipe]int
	lastFaultedWrite int
}

func genScenario(t *core.Tape, faulty bool) scenario {
	sc := scenario{}
	sc.HostActive = t.Choose("scn", 2) == 1
	sc.Device = uint16(t.Choose("scn", 32768))
	sc.Retry = t.Choose("scn", 6)
	sc.T1 = 40 * time.Millisecond
	sc.T2 = []time.Duration{150 * time.Millisecond, 300 * time.Millisecond}[t.Choose("scn", 2)]
	sc.Senders = [2]int{1 + t.Choose("scn", 3), 1 + t.Choose("scn", 3)}
	sc.PerSender = 1 + t.Choose("scn", 5)
	if faulty {
		sc.FaultRate = []int{6, 12, 25}[t.Choose("scn", 3)]
		sc.FaultsFor = time.Duration(1+t.Choose("scn", 6)) * time.Second
	}
	for i := 0; i < 16; i++ {
		sc.Sizes = append(sc.Sizes, []int{0, 10, 200, 241, 242, 300, 600, 900, 1100}[t.Choose("scn", 9)])
	}

	return sc
}

// Build returns the scenario builder.
func Build(config string) core.BuildFunc {
	return func(w *core.World) *core.Scenario {
		h := &harness{w: w, byTok: map[string]*msg{}, attempts: map[[10]byte]int{}, pipeSide: map[*simnet.Pipe]int{}}
		h.sc = genScenario(w.T, config == "faulty")
		sc := h.sc
		h.n = simnet.New(w)
		h.n.LatMin = time.Millisecond
		h.faultsOn = sc.FaultRate > 0
		mk := func(side int) *rig.Rig1 {
			active := sc.HostActive == (side == 0)

			return rig.NewSECS1(w, rig.Opts1{Active: active, Equip: side == 1, Device: sc.Device, T1: sc.T1, T2: sc.T2, T3: 30 * time.Second, T4: 20 * time.Second, T5: 200 * time.Millisecond,
				Retry: sc.Retry, BackoffInit: 20 * time.Millisecond, BackoffMult: 2, CloseTimeout: time.Second, Net: h.n, Name: fmt.Sprint(side)})
		}
		h.r[0], h.r[1] = mk(0), mk(1)
		for side := 0; side < 2; side++ {
			side := side
			h.r[side].OnDeliver = func(m *hsms.DataMessage, ep hsms.SECS2Endpoint) { h.onDeliver(side, m) }
		}
		h.n.Mangle = h.mangle
		h.n.Seg = h.seg
		// the passive end first, then the active one
		passive, activeSide := 1, 0
		if !sc.HostActive {
			passive, activeSide = 0, 1
		}
		h.r[passive].Open()
		w.After(2*time.Millisecond, "open-active", func() { h.r[activeSide].Open() })
		if h.faultsOn {
			w.After(sc.FaultsFor, "faults-stop", func() { h.faultsOn = false; h.faultsOffAt = w.Now(); w.Logf("faults stop") })
		}
		for side := 0; side < 2; side++ {
			for s := 0; s < sc.Senders[side]; s++ {
				side, s := side, s
				w.Go(fmt.Sprintf("snd%d-%d", side, s), func() { h.sender(side, s) })
			}
		}

		return &core.Scenario{
			Desc:       h.describe(),
			Horizon:    300 * time.Second,
			Done:       func() bool { return h.finished && w.Idle() },
			Final:      h.final,
			Cleanup:    func() { h.stop = true; _ = h.r[0].C.Close(); _ = h.r[1].C.Close() },
			Nontrivial: func() bool { return len(h.msgs) > 0 && h.finished },
		}
	}
}

func (h *harness) describe() map[string]any {
	sc := h.sc

	return map[string]any{"hostActive": sc.HostActive, "device": sc.Device, "retryLimit": sc.Retry, "T1": sc.T1.String(), "T2": sc.T2.String(), "sendersHost": sc.Senders[0], "sendersEquip": sc.Senders[1],
		"sendsEach": sc.PerSender, "faultRate": sc.FaultRate, "faultsFor": sc.FaultsFor.String()}
}

// sideOf maps a pipe to the side that WRITES into it.
func (h *harness) sideOf(p *simnet.Pipe) int {
	if s, ok := h.pipeSide[p]; ok {
		return s
	}
	// the dialer writes into a2b; the dialer is the active end
	dialerSide := 1
	if h.sc.HostActive {
		dialerSide = 0
	}
	side := 1 - dialerSide
	if strings.HasSuffix(p.Name(), "a2b") {
		side = dialerSide
	}
	h.pipeSide[p] = side

	return side
}

// mangle is the middlebox: it sees every write of either end (a 1-byte handshake character or a
// whole block) and, while faults are on, damages some of them in ways SEMI E4 is guaranteed to
// detect.
func (h *harness) mangle(p *simnet.Pipe, b []byte) []byte {
	w, t := h.w, h.w.T
	side := h.sideOf(p)
	ev := lineEvent{at: w.Now(), side: side, kind: "other"}
	isBlock := len(b) >= 13
	if isBlock {
		ev.kind = "block"
		copy(ev.hdr[:], b[1:11])
		h.attempts[ev.hdr]++
		if h.attempts[ev.hdr] > h.maxAttempts {
			h.maxAttempts = h.attempts[ev.hdr]
		}
	} else if len(b) == 1 {
		switch b[0] {
		case enq:
			ev.kind = "enq"
		case eot:
			ev.kind = "eot"
		case ack:
			ev.kind = "ack"
		case nak:
			ev.kind = "nak"
		}
	}
	h.inBlockFault = false
	out := b
	// A late character is indistinguishable from a timely one, so after a delay fault the line
	// carries stale handshake characters for a while; SEMI E4 gives no guarantee if a second fault
	// strikes before they have been flushed by the next ENQ/EOT exchanges. Faults are therefore
	// suspended for a quiet period after every delay fault.
	if h.faultsOn && h.sc.FaultRate > 0 && w.Now() >= h.quietUntil && t.Choose("fault", h.sc.FaultRate) == 0 {
		ev.faulted = true
		if isBlock {
			switch t.Choose("fault", 4) {
			case 0: // one corrupted character (never the length byte)
				out = append([]byte(nil), b...)
				i := 1 + t.Choose("fault", len(b)-1)
				out[i] ^= byte(1 + t.Choose("fault", 255))
				w.Fault("flip-char")
			case 1: // the whole block is lost
				out = nil
				w.Fault("drop-block")
			case 2: // the tail is lost
				out = append([]byte(nil), b[:1+t.Choose("fault", len(b)-1)]...)
				w.Fault("truncate-block")
			default: // a pause longer than T1 inside the block — only where the late tail holds no byte that reads as a handshake character (ENQ/EOT/ACK/NAK): such a tail arrives as stray characters on the line and a stray EOT or ACK is indistinguishable from a real one
				cut := 1 + t.Choose("fault", len(b)-1)
				if !bytes.ContainsAny(b[cut:], "\x04\x05\x06\x15") {
					h.inBlockFault = true
					h.cutAt = cut
					h.quietUntil = w.Now() + h.sc.T1 + 4*h.sc.T2
					w.Fault("delay-inside-block>T1")
				} else {
					out = nil
					w.Fault("drop-block")
				}
			}
		} else if len(b) == 1 {
			switch t.Choose("fault", 3) {
			case 0:
				out = nil
				w.Fault("drop-" + ev.kind)
			case 1:
				out = []byte{0x7E}
				if b[0] == ack && t.Choose("fault", 2) == 0 {
					out = []byte{nak}
				}
				w.Fault("replace-" + ev.kind)
			default:
				h.delayChar = true
				h.quietUntil = w.Now() + 5*h.sc.T2
				w.Fault("delay-" + ev.kind + ">T2")
			}
		}
	}
	h.events = append(h.events, ev)
	if isBlock {
		w.Logf("line side=%d block num=%d E=%v sys=%x len=%d faulted=%v", side, (int(b[5]&0x7F)<<8)|int(b[6]), b[5]&0x80 != 0, b[7:11], len(b), ev.faulted)
	} else {
		w.Logf("line side=%d %s faulted=%v", side, ev.kind, ev.faulted)
	}

	return out
}

func (h *harness) seg(p *simnet.Pipe, n int) []simnet.SegPlan {
	if h.inBlockFault && h.cutAt > 0 && h.cutAt < n {
		c := h.cutAt
		h.inBlockFault = false

		return []simnet.SegPlan{{Size: c, Delay: time.Millisecond}, {Size: n - c, Delay: h.sc.T1 + 15*time.Millisecond}}
	}
	if h.delayChar {
		h.delayChar = false

		return []simnet.SegPlan{{Size: n, Delay: h.sc.T2 + 20*time.Millisecond}}
	}

	return []simnet.SegPlan{{Size: n, Delay: time.Millisecond}}
}

func (h *harness) onDeliver(side int, m *hsms.DataMessage) {
	body := m.AppendBodyTo(nil)
	tok := ""
	if s, ok := refhsms.ParseASCII(body); ok {
		if i := strings.IndexByte(s, '|'); i > 0 {
			tok = s[:i]
		}
	}
	if tok == "final" {
		return
	}
	if hb := m.HeaderBytes(); hb[2]&0x7F == 9 && h.byTok[tok] == nil {
		// a stream-9 error report the receiving library end originated itself (for example S9F7 after a
		// block it could not place): not application data, so neither a delivery nor an alteration
		h.w.Probe("library_s9_report")

		return
	}
	h.w.Logf("deliver side=%d tok=%s", side, tok)
	mm := h.byTok[tok]
	if mm == nil {
		h.w.Fail("ALTERED", "side %d received a message that was never sent (header %x, %d body bytes, text %.20q)", side, m.HeaderBytes(), len(body), tok)

		return
	}
	if mm.Side != 1-side {
		h.w.Fail("ALTERED", "message %s was delivered to its own sender's side", tok)

		return
	}
	if !bytes.Equal(body, mm.Body) {
		h.w.Fail("ALTERED", "message %s arrived altered: %d body bytes, sent %d (first difference at %d)", tok, len(body), len(mm.Body), firstDiff(body, mm.Body))

		return
	}
	for _, d := range h.delivered[side] {
		if d == tok {
			h.w.Fail("DUPLICATE", "message %s (%d blocks) was delivered twice", tok, mm.Blocks)

			return
		}
	}
	h.delivered[side] = append(h.delivered[side], tok)
}

func firstDiff(a, b []byte) int {
	for i := 0; i < len(a) && i < len(b); i++ {
		if a[i] != b[i] {
			return i
		}
	}

	return min(len(a), len(b))
}

func (h *harness) sender(side, s int) {
	w := h.w
	C := h.r[side].C
	for !h.r[side].Selected() && !h.stop {
		core.Sleep(2 * time.Millisecond)
	}
	for i := 0; i < h.sc.PerSender && !h.stop; i++ {
		core.Sleep(time.Duration(w.T.Choose("app", 30)) * time.Millisecond)
		size := h.sc.Sizes[(side*7+s*3+i)%len(h.sc.Sizes)]
		tok := fmt.Sprintf("m%d-%d-%d", side, s, i)
		text := tok + "|" + strings.Repeat(string(rune('a'+(i+s)%20)), size)
		// avoid ENQ (0x05) anywhere in what we control; the text is printable ASCII anyway
		m := &msg{Tok: tok, Side: side, Sender: s, Body: refhsms.ASCII(text)}
		m.Blocks = (len(m.Body) + 243) / 244
		if m.Blocks == 0 {
			m.Blocks = 1
		}
		h.msgs = append(h.msgs, m)
		h.byTok[tok] = m
		m.TCall = w.Now()
		_, err := C.SendDataMessage(context.Background(), byte(1+(i%3)), byte(1+2*(s%3)), false, secs2.A(text))
		m.TRet, m.Err, m.Done = w.Now(), err, true
		w.Logf("send %s side=%d err=%v", tok, side, err)
		if err != nil {
			// the link may be re-establishing: wait for it (bounded by the harness horizon)
			for !h.r[side].Selected() && !h.stop {
				core.Sleep(5 * time.Millisecond)
			}
		}
	}
	h.doneSend[side]++
	if h.doneSend[0] == h.sc.Senders[0] && h.doneSend[1] == h.sc.Senders[1] {
		h.w.Go("finale", h.finale)
	}
}

// finale: faults are off; both directions must carry a message again (the link re-established).
func (h *harness) finale() {
	w := h.w
	h.faultsOn = false
	if h.faultsOffAt == 0 {
		h.faultsOffAt = w.Now()
	}
	bound := time.Duration(h.sc.Retry+2)*3*h.sc.T2*5 + 5*time.Second
	deadline := w.Now() + bound
	for side := 0; side < 2; side++ {
		for w.Now() < deadline && !h.finalOK[side] {
			if !h.r[side].Selected() {
				core.Sleep(5 * time.Millisecond)

				continue
			}
			if _, err := h.r[side].C.SendDataMessage(context.Background(), 9, 9, false, secs2.A("final|")); err == nil {
				h.finalOK[side] = true
			} else {
				core.Sleep(10 * time.Millisecond)
			}
		}
	}
	core.Sleep(50 * time.Millisecond)
	h.finished = true
}

func (h *harness) final(reason string) {
	w, sc := h.w, h.sc
	for _, m := range h.msgs {
		if !m.Done {
			w.Fail("DEADLOCK", "send %s (side %d, %d blocks) started at %v never returned (run ended: %s at %v)", m.Tok, m.Side, m.Blocks, m.TCall, reason, w.Now())

			return
		}
	}
	if !h.finished {
		w.Fail("DEADLOCK", "the run did not finish (reason %s)", reason)

		return
	}
	if !h.finalOK[0] || !h.finalOK[1] {
		w.Fail("NO_RECOVERY", "after the faults stopped the line did not carry a message again (host->equipment ok=%v, equipment->host ok=%v; states %v / %v)", h.finalOK[0], h.finalOK[1], h.r[0].C.State(), h.r[1].C.State())

		return
	}
	// ---- exactly once for every successful send; in order per direction
	for side := 0; side < 2; side++ {
		recv := 1 - side
		pos := map[string]int{}
		for i, tok := range h.delivered[recv] {
			pos[tok] = i
		}
		var ok []*msg
		for _, m := range h.msgs {
			if m.Side != side {
				continue
			}
			if m.Err == nil {
				if _, got := pos[m.Tok]; !got {
					w.Fail("LOST", "send %s (%d blocks) returned success at %v but the message was never delivered to the peer's handlers", m.Tok, m.Blocks, m.TRet)

					return
				}
				ok = append(ok, m)
			} else if sc.FaultRate == 0 {
				w.Fail("SEND_FAILED", "send %s failed on a fault-free line: %v", m.Tok, m.Err)

				return
			} else if !errors.Is(m.Err, secs1.ErrSendFailed) && !errors.Is(m.Err, context.Canceled) && !errors.Is(m.Err, hsms.ErrConnClosed) && !errors.Is(m.Err, hsms.ErrNotSelectedState) && !strings.Contains(m.Err.Error(), "closed") && !strings.Contains(m.Err.Error(), "reset") && !strings.Contains(m.Err.Error(), "EOF") && !strings.Contains(m.Err.Error(), "pipe") {
				w.Fail("ERROR_CLASS", "send %s failed with an undocumented error: %v", m.Tok, m.Err)

				return
			}
		}
		// order: successful sends complete one at a time (the line is half duplex), so their
		// completion order is the order on the line
		for i := 1; i < len(ok); i++ {
			a, b := ok[i-1], ok[i]
			if a.TRet > b.TRet {
				a, b = b, a
			}
			if a.TRet < b.TRet && a.Sender == b.Sender && pos[a.Tok] > pos[b.Tok] {
				w.Fail("ORDER", "messages %s and %s of one sender were delivered in the opposite order", a.Tok, b.Tok)

				return
			}
		}
		for i := 0; i < len(ok); i++ {
			for j := i + 1; j < len(ok); j++ {
				a, b := ok[i], ok[j]
				if a.TRet < b.TCall && pos[a.Tok] > pos[b.Tok] {
					w.Fail("ORDER", "message %s completed (at %v) before %s was even sent (at %v) but was delivered after it", a.Tok, a.TRet, b.Tok, b.TCall)

					return
				}
			}
		}
	}
	// ---- attempts per block: at most retry+1, restarting after each contention yield
	yields := int(h.r[0].C.BlockMetrics().ContentionYieldCount())
	for hdr, n := range h.attempts {
		if n > (sc.Retry+1)*(1+yields) {
			w.Fail("ATTEMPTS", "block %x was transmitted %d times; the retry limit is %d (so at most %d attempts, %d contention yields observed)", hdr, n, sc.Retry, sc.Retry+1, yields)

			return
		}
		if sc.FaultRate == 0 && yields == 0 && n > 1 {
			w.Fail("ATTEMPTS", "block %x was transmitted %d times on a fault-free line without contention", hdr, n)

			return
		}
	}
	// ---- contention (fault-free runs only): when both ends have requested the line, the
	// equipment's block crosses first
	if sc.FaultRate == 0 {
		pending := [2]bool{}
		for _, e := range h.events {
			switch e.kind {
			case "enq":
				pending[e.side] = true
			case "block":
				if e.side == 0 && pending[1] && pending[0] {
					w.Fail("CONTENTION", "both ends had requested the line (ENQ) and the host's block crossed first at %v", e.at)

					return
				}
				if pending[0] && pending[1] && e.side == 1 {
					w.Probe("contention_equipment_first")
				}
				pending[e.side] = false
			}
		}
		if yields > 0 {
			w.Probe("contention_yield")
		}
	}
	if h.maxAttempts > 1 {
		w.Probe("block_retransmitted")
	}
}
