package c18

// Configuration "scripted": ONE real secs1 connection against the independent reference E4 peer
// (refe4), which plays a scripted adversary-but-legal line: for every request to send (ENQ) of the
// library it grants the line, stays silent, or — when it is the master — contends with an ENQ of its
// own and then sends a good, a corrupt or a truncated block; every block it receives it answers with
// ACK, NAK, silence or a damaged ACK. Because the peer KNOWS what it did, the reference sender model
// of SEMI E4 §7.8.2 is exact here: the failed-attempt counter of the block send in progress goes up
// by one for each attempt that ends without an ACK (no grant, NAK, no answer, damaged answer, a
// contention yield in which the master's block could not be received) and restarts at zero after an
// ACK or a successful contention yield. The library must
//   - never request the line again for a block once retry-limit+1 attempts have failed (ATTEMPTS),
//   - fail that send, drop the line and re-establish it (NO_DISCONNECT / NO_RECOVERY),
//   - not fail a send before the attempts are used up (EARLY_FAIL) and report success exactly for
//     the messages all of whose blocks were acknowledged (FALSE_SUCCESS),
//   - always yield to a contending master (CONTENTION), acknowledge exactly the intact blocks
//     (YIELD_ANSWER) and deliver the messages received during a yield exactly once, duplicates never.

import (
	"context"
	"errors"
	"fmt"
	"strings"
	"time"

	"github.com/arloliu/go-secs/v2/hsms"
	"github.com/arloliu/go-secs/v2/secs1"
	"github.com/arloliu/go-secs/v2/secs2"
	"github.com/arloliu/go-secs/v2/verifsim/core"
	"github.com/arloliu/go-secs/v2/verifsim/refe4"
	"github.com/arloliu/go-secs/v2/verifsim/refhsms"
	"github.com/arloliu/go-secs/v2/verifsim/rig"
	"github.com/arloliu/go-secs/v2/verifsim/simnet"
)

type sMsg struct {
	Tok     string
	Blocks  int
	Acked   int  // blocks acknowledged by the peer
	Failed  bool // the model says the retries were exhausted during this message
	TCall   time.Duration
	TRet    time.Duration
	Err     error
	Done    bool
	Final   bool
	GenCall int
}

type sScenario struct {
	Equip, Active bool
	Device        uint16
	Retry         int
	T2            time.Duration
	Sizes         []int
	// script weights
	WGrant, WSilent, WContend          int
	WAck, WNak, WNoAnswer, WGarbage    int
	WGoodBlk, WBadSum, WTrunc, WDupBlk int
}

type sHarness struct {
	w  *core.World
	sc sScenario
	r  *rig.Rig1

	p      *refe4.Peer
	gen    int
	genAt  time.Duration
	script bool

	// the reference sender model (one send at a time: the application sends sequentially)
	rc          int // failed attempts of the block send in progress
	atts        int // ENQs of the block send in progress
	maxAtts     int
	exhausted   bool
	exhaustedAt time.Duration
	exhaustGen  int
	cur         *sMsg
	msgs        []*sMsg

	inSeq     int
	expectIn  []string
	lastIn    []byte
	lastInTok string

	finished bool
	stop     bool
}

func genSScenario(t *core.Tape) sScenario {
	sc := sScenario{}
	sc.Equip = t.Choose("scn", 2) == 1
	sc.Active = t.Choose("scn", 2) == 1
	sc.Device = uint16(t.Choose("scn", 32768))
	sc.Retry = t.Choose("scn", 5)
	sc.T2 = []time.Duration{150 * time.Millisecond, 300 * time.Millisecond}[t.Choose("scn", 2)]
	n := 1 + t.Choose("scn", 4)
	for i := 0; i < n; i++ {
		sc.Sizes = append(sc.Sizes, []int{0, 10, 230, 300, 600}[t.Choose("scn", 5)])
	}
	// swarm: each run draws its own fault mix
	sc.WGrant = 2 + t.Choose("scn", 6)
	sc.WSilent = t.Choose("scn", 3)
	sc.WContend = t.Choose("scn", 5)
	sc.WAck = 2 + t.Choose("scn", 6)
	sc.WNak = t.Choose("scn", 4)
	sc.WNoAnswer = t.Choose("scn", 2)
	sc.WGarbage = t.Choose("scn", 2)
	sc.WGoodBlk = 1 + t.Choose("scn", 3)
	sc.WBadSum = t.Choose("scn", 4)
	sc.WTrunc = t.Choose("scn", 2)
	sc.WDupBlk = t.Choose("scn", 2)

	return sc
}

func buildScripted() core.BuildFunc {
	return func(w *core.World) *core.Scenario {
		h := &sHarness{w: w, script: true}
		h.sc = genSScenario(w.T)
		sc := h.sc
		h.r = rig.NewSECS1(w, rig.Opts1{Active: sc.Active, Equip: sc.Equip, Device: sc.Device, T1: 40 * time.Millisecond, T2: sc.T2, T3: 30 * time.Second, T4: 20 * time.Second,
			T5: 200 * time.Millisecond, Retry: sc.Retry, BackoffInit: 20 * time.Millisecond, BackoffMult: 2, CloseTimeout: time.Second})
		r := h.r
		if w.T.Choose("scn", 2) == 1 {
			// the peer's handshake characters may reach the library in one read (ACK + the next ENQ)
			r.N.Coalesce = func(*simnet.Pipe) bool {
				if w.T.Choose("net", 2) == 1 {
					w.Probe("writes_coalesced_into_one_segment")

					return true
				}

				return false
			}
		}
		if sc.Active {
			r.N.OnConnect = func(l *simnet.Link) simnet.RawEnd {
				if h.p != nil && !h.p.Dead {
					return nil
				}

				return h.attach(l)
			}
		} else {
			var try func()
			try = func() {
				if h.stop || h.finished {
					return
				}
				if (h.p == nil || h.p.Dead) && r.N.Listening(rig.Addr) {
					p := h.newPeer()
					if l := r.N.PeerConnect(rig.Addr, p); l != nil {
						p.L = l
						h.adopt(p)
					}
				}
				w.After(3*time.Millisecond, "peer-connect", try)
			}
			w.After(0, "peer-connect", try)
		}
		r.Open()
		w.Go("sender", h.sender)

		return &core.Scenario{
			Desc:       h.describe(),
			Horizon:    200 * time.Second,
			Done:       func() bool { return h.finished && w.Idle() },
			Final:      h.final,
			Cleanup:    func() { h.stop = true; _ = r.C.Close() },
			Nontrivial: func() bool { return h.finished && len(h.msgs) > 1 },
		}
	}
}

func (h *sHarness) describe() map[string]any {
	sc := h.sc

	return map[string]any{"engine": "scripted", "equip": sc.Equip, "active": sc.Active, "device": sc.Device, "retryLimit": sc.Retry, "T2": sc.T2.String(), "sizes": sc.Sizes,
		"enq": []int{sc.WGrant, sc.WSilent, sc.WContend}, "answer": []int{sc.WAck, sc.WNak, sc.WNoAnswer, sc.WGarbage}, "masterBlock": []int{sc.WGoodBlk, sc.WBadSum, sc.WTrunc, sc.WDupBlk}}
}

func (h *sHarness) newPeer() *refe4.Peer {
	p := refe4.New(h.w, !h.sc.Equip, 40*time.Millisecond, h.sc.T2)
	p.Grant = func() bool { return h.onENQ(p) }
	p.Answer = func(b *refe4.RxBlock) byte { return h.onBlock(p, b) }
	p.OnEnd = func() {
		h.w.Logf("scripted: generation %d ended", h.gen)
	}

	return p
}

func (h *sHarness) attach(l *simnet.Link) simnet.RawEnd {
	p := h.newPeer()
	p.L = l
	h.adopt(p)

	return p
}

func (h *sHarness) adopt(p *refe4.Peer) {
	h.p = p
	h.gen++
	h.genAt = h.w.Now()
	// a new connection: whatever send was in progress ended with the old one
	h.rc, h.atts, h.exhausted = 0, 0, false
	h.lastIn = nil
	h.w.Logf("scripted: generation %d up", h.gen)
}

// failAttempt: the attempt in progress ends without an ACK.
func (h *sHarness) failAttempt(kind string) {
	h.rc++
	h.w.Fault(kind)
	if h.rc > h.sc.Retry && !h.exhausted {
		h.exhausted = true
		h.exhaustedAt = h.w.Now()
		h.exhaustGen = h.gen
		if h.cur != nil {
			h.cur.Failed = true
		}
		h.w.Probe("retries_exhausted")
		gen, p := h.gen, h.p
		// the library must now drop the line ...
		h.w.After(h.sc.T2+2*time.Second, "exhaust-check", func() {
			if h.w.Stopped() {
				return
			}
			if h.gen == gen && !p.Dead {
				h.w.Fail("NO_DISCONNECT", "retry-limit+1 = %d attempts of a block failed at %v but the library still holds the connection %v later", h.sc.Retry+1, h.exhaustedAt, h.w.Now()-h.exhaustedAt)
			}
		})
	}
}

func (h *sHarness) pick(ws ...int) int {
	return h.w.T.Weighted("peer", ws...)
}

// onENQ: the library requests the line (the start of one attempt).
func (h *sHarness) onENQ(p *refe4.Peer) bool {
	w, sc := h.w, h.sc
	if p != h.p {
		return true
	}
	h.atts++
	if h.atts > h.maxAtts {
		h.maxAtts = h.atts
	}
	if h.exhausted {
		w.Fail("ATTEMPTS", "the library requested the line again (ENQ #%d of this block send) although %d attempts have failed and the retry limit is %d: a block is attempted at most retry-limit+1 = %d times, then the send fails", h.atts, h.rc, sc.Retry, sc.Retry+1)

		return true
	}
	if !h.script {
		return true
	}
	wc := sc.WContend
	if sc.Equip {
		wc = 0 // the peer is the slave: it never wins a contention
	}
	choice := h.pick(sc.WGrant, sc.WSilent, wc)
	if choice == 2 && wc == 0 {
		choice = 0 // (a replayed or minimised tape may carry a value the weights would not produce)
	}
	switch choice {
	case 0:
		return true
	case 1:
		h.failAttempt("enq-not-answered")

		return false
	}
	// contention: the master asks for the line itself; the host must yield
	var raw []byte
	tok, valid, dup := "", true, false
	kind := h.pick(sc.WGoodBlk, sc.WBadSum, sc.WTrunc, sc.WDupBlk)
	if kind == 3 && h.lastIn == nil {
		kind = 0
	}
	if kind == 3 {
		raw, tok, dup = h.lastIn, h.lastInTok, true
		w.Fault("master-block-duplicate")
	} else {
		h.inSeq++
		tok = fmt.Sprintf("in%d", h.inSeq)
		hd := refe4.Header{Device: sc.Device, R: true, Stream: 5, Func: 1, Num: 1, E: true, Sys: 0x40000000 + uint32(h.inSeq)}
		raw = refe4.Wire(hd, refhsms.ASCII(tok+"|yield"))
		switch kind {
		case 1:
			raw = append([]byte(nil), raw...)
			raw[len(raw)-1] ^= 0x5A
			valid = false
			w.Fault("master-block-bad-checksum")
		case 2:
			raw = raw[:len(raw)-1-w.T.Choose("peer", len(raw)-2)]
			valid = false
			w.Fault("master-block-truncated")
		default:
			w.Fault("master-block-good")
		}
	}
	p.SendBlock(raw, nil, nil, func(res refe4.TxResult) {
		if p != h.p || w.Stopped() {
			return
		}
		switch res.Outcome {
		case "ack":
			if !valid {
				w.Fail("YIELD_ANSWER", "the library acknowledged a damaged block it received while yielding (%d bytes)", len(raw))

				return
			}
			// successful yield: the postponed send restarts as a new send request (E4 7.8.2.1)
			h.rc, h.atts = 0, 0
			w.Probe("contention_yield_success")
			if !dup {
				h.expectIn = append(h.expectIn, tok)
				h.lastIn, h.lastInTok = raw, tok
			} else {
				w.Probe("duplicate_block_during_yield")
			}
		case "nak":
			if valid {
				w.Fail("YIELD_ANSWER", "the library answered NAK to an intact block it received while yielding")

				return
			}
			w.Probe("contention_yield_failed")
			h.failAttempt("yield-failed")
		case "no-eot":
			w.Fail("CONTENTION", "both ends requested the line and the host did not yield: the master's ENQ got no EOT within T2")
		case "aborted":
		default:
			w.Fail("YIELD_ANSWER", "the library's answer to the master's block during a yield: %s", res.Outcome)
		}
	})

	return false
}

// onBlock: the library transmitted a block after being granted the line; choose the answer.
func (h *sHarness) onBlock(p *refe4.Peer, b *refe4.RxBlock) byte {
	sc := h.sc
	if p != h.p {
		return refe4.ACK
	}
	if !b.Valid {
		// (the well-formedness of transmitted blocks is C17's subject; here it only counts as a failure)
		h.failAttempt("library-block-invalid")

		return refe4.NAK
	}
	ans := 0
	if h.script {
		ans = h.pick(sc.WAck, sc.WNak, sc.WNoAnswer, sc.WGarbage)
	}
	switch ans {
	case 0:
		h.rc, h.atts = 0, 0
		if m := h.cur; m != nil && !m.Done {
			if int(b.H.Num) == m.Acked+1 || (m.Blocks == 1 && b.H.Num <= 1 && m.Acked == 0) {
				m.Acked++
			}
		}

		return refe4.ACK
	case 1:
		h.failAttempt("block-nak")

		return refe4.NAK
	case 2:
		h.failAttempt("block-not-answered")

		return 0
	}
	h.failAttempt("block-answer-garbled")

	return 0x7E
}

func (h *sHarness) sender() {
	w, sc := h.w, h.sc
	C := h.r.C
	waitUp := func(afterGen int, bound time.Duration) bool {
		deadline := w.Now() + bound
		for !h.stop && w.Now() < deadline {
			if h.gen > afterGen && h.r.Selected() && h.p != nil && !h.p.Dead {
				return true
			}
			core.Sleep(2 * time.Millisecond)
		}

		return false
	}
	if !waitUp(0, 10*time.Second) {
		w.Fail("NO_RECOVERY", "the line never came up")

		return
	}
	n := len(sc.Sizes) + 1
	for i := 0; i < n && !h.stop; i++ {
		m := &sMsg{Tok: fmt.Sprintf("out%d", i), Final: i == n-1}
		size := 10
		if !m.Final {
			size = sc.Sizes[i]
		} else {
			h.script = false // the line is healthy again: the last message must go through
		}
		text := m.Tok + "|" + strings.Repeat("x", size)
		body := refhsms.ASCII(text)
		m.Blocks = (len(body) + 243) / 244
		if m.Blocks == 0 {
			m.Blocks = 1
		}
		h.msgs = append(h.msgs, m)
		h.cur = m
		m.TCall, m.GenCall = w.Now(), h.gen
		_, err := C.SendDataMessage(context.Background(), 7, 1, false, secs2.A(text))
		m.TRet, m.Err = w.Now(), err
		// the library's last character (the NAK that ends a failed yield) is still crossing the line: let
		// the peer, and with it the reference model, see it before the verdict
		core.Sleep(3 * time.Millisecond)
		m.Done = true
		w.Logf("scripted: send %s err=%v acked=%d/%d modelFailed=%v", m.Tok, err, m.Acked, m.Blocks, m.Failed)
		if w.Stopped() {
			return
		}
		switch {
		case err == nil && m.Acked != m.Blocks:
			w.Fail("FALSE_SUCCESS", "send %s returned success but only %d of its %d blocks were acknowledged", m.Tok, m.Acked, m.Blocks)

			return
		case err != nil && !m.Failed:
			w.Fail("EARLY_FAIL", "send %s failed (%v) after %d failed attempts of the block in progress; the retry limit is %d, so %d attempts are due before a send fails (%d of %d blocks acknowledged)", m.Tok, err, h.rc, sc.Retry, sc.Retry+1, m.Acked, m.Blocks)

			return
		case err != nil && !errors.Is(err, secs1.ErrSendFailed) && !errors.Is(err, hsms.ErrConnClosed):
			w.Fail("ERROR_CLASS", "send %s failed with an undocumented error: %v", m.Tok, err)

			return
		case err == nil && m.Failed:
			w.Fail("FALSE_SUCCESS", "send %s returned success although retry-limit+1 attempts of one of its blocks failed", m.Tok)

			return
		}
		if err != nil {
			w.Probe("send_failed_after_exact_attempts")
			// ... and re-establish it
			if !waitUp(m.GenCall, 10*time.Second) {
				w.Fail("NO_RECOVERY", "send %s failed at %v (retries exhausted); %v later the link is not re-established (state %v, connections so far %d)", m.Tok, m.TRet, w.Now()-m.TRet, C.State(), h.gen)

				return
			}
			w.Probe("link_reestablished_after_exhaustion")
		} else if m.Final {
			w.Probe("final_message_through")
		}
	}
	core.Sleep(50 * time.Millisecond)
	h.finished = true
}

func (h *sHarness) final(reason string) {
	w := h.w
	if !h.finished {
		for _, m := range h.msgs {
			if !m.Done {
				w.Fail("DEADLOCK", "send %s started at %v never returned (run ended: %s at %v; %d failed attempts, retry limit %d)", m.Tok, m.TCall, reason, w.Now(), h.rc, h.sc.Retry)

				return
			}
		}
		w.Fail("DEADLOCK", "the run did not finish (reason %s)", reason)

		return
	}
	if last := h.msgs[len(h.msgs)-1]; last.Err != nil {
		w.Fail("NO_RECOVERY", "with the line healthy again the last message still failed: %v", last.Err)

		return
	}
	// messages received during contention yields: exactly once, in order, duplicates never
	var got []string
	for _, d := range h.r.Deliveries {
		if s, ok := refhsms.ParseASCII(d.Body); ok {
			if i := strings.IndexByte(s, '|'); i > 0 {
				got = append(got, s[:i])

				continue
			}
		}
		w.Fail("ALTERED", "the library delivered a message the master never sent (header %x)", d.Hdr)

		return
	}
	if strings.Join(got, ",") != strings.Join(h.expectIn, ",") {
		w.Fail("YIELD_DELIVERY", "messages received while yielding to the master: delivered %v, acknowledged (each once) %v", got, h.expectIn)

		return
	}
	if len(got) > 0 {
		w.Probe("message_received_during_yield_delivered_once")
	}
}
