package c18

import (
	"testing"

	"github.com/arloliu/go-secs/v2/verifsim/core"
)

func TestWorker(t *testing.T) {
	core.WorkerMain(t, core.Property{ID: "C18", Configs: []string{"clean", "faulty", "scripted"}, Build: Build})
}
