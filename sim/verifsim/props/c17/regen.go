package c17

// Configuration "inbound-regen": the inbound rules hold per connection. One SECS-I connection goes
// through 2-3 TCP generations against the scripted E4 peer. Each generation but the last ends (reset
// or orderly close) right after a block that leaves something behind in a receiver that forgot to
// start afresh — the first block of a two-block message, or a complete single-block message — and the
// next generation opens, well inside T4, with exactly the block that would exploit it: the second
// block of the old message (must NOT be stitched to a block received on a dead connection), or the
// very same single-block message again (a new connection has no "previous block": it is a new
// message and must be delivered). Oracle: a fresh reference assembler per generation.

import (
	"bytes"
	"fmt"
	"time"

	"github.com/arloliu/go-secs/v2/hsms"
	"github.com/arloliu/go-secs/v2/verifsim/core"
	"github.com/arloliu/go-secs/v2/verifsim/refe4"
	"github.com/arloliu/go-secs/v2/verifsim/rig"
	"github.com/arloliu/go-secs/v2/verifsim/simnet"
)

type rgGen struct {
	n       int
	p       *refe4.Peer
	l       *simnet.Link
	plan    []txPlan
	results []refe4.TxResult
	next    int
	started bool
	over    bool
	rst     bool
}

type regen struct {
	w      *core.World
	r      *rig.Rig1
	equip  bool
	active bool
	device uint16
	t4     time.Duration
	gens   []*rgGen
	plans  [][]txPlan
	ends   []bool
	usedLn int
	done   bool
	stop   bool
}

func buildRegen() core.BuildFunc {
	return func(w *core.World) *core.Scenario {
		t := w.T
		h := &regen{w: w, t4: 5 * time.Second}
		h.active, h.equip = t.Choose("scn", 2) == 1, t.Choose("scn", 2) == 1
		h.device = uint16(t.Choose("scn", 32768))
		toLibR := !h.equip
		nGens := 2 + t.Choose("scn", 2)
		sys := uint32(500)
		body := func(tag, n int) []byte {
			b := make([]byte, n)
			for k := range b {
				b[k] = byte(tag*13 + k)
			}

			return b
		}
		var carry *txPlan // what the previous generation left behind
		var carryKind int
		for g := 0; g < nGens; g++ {
			var plan []txPlan
			if carry != nil {
				switch carryKind {
				case 0: // the second block of the message whose first block died with the old connection
					hd := carry.H
					hd.Num, hd.E = 2, true
					plan = append(plan, txPlan{Kind: "continuation-of-dead-generation", H: hd, Body: body(100+g, 1+t.Choose("scn", 200)), Valid: true, Gap: time.Millisecond})
				case 1: // the same complete single-block message again
					plan = append(plan, txPlan{Kind: "same-message-again", H: carry.H, Body: carry.Body, Valid: true, Gap: time.Millisecond})
				}
			}
			for mi, nm := 0, t.Choose("scn", 3); mi < nm; mi++ {
				sys++
				nb := 1 + t.Choose("scn", 2)
				mh := refe4.Header{Device: h.device, R: toLibR, Stream: byte(1 + t.Choose("scn", 126)), Func: byte(2 * t.Choose("scn", 100)), Sys: sys}
				for bi := 0; bi < nb; bi++ {
					hd := mh
					hd.Num, hd.E = uint16(bi+1), bi == nb-1
					n := 244
					if hd.E {
						n = t.Choose("scn", 245)
					}
					plan = append(plan, txPlan{Kind: "valid", H: hd, Body: body(g*10+mi, n), Valid: true, Gap: time.Duration(1+t.Choose("scn", 4)) * time.Millisecond})
				}
			}
			carry = nil
			if g < nGens-1 {
				sys++
				carryKind = t.Choose("scn", 3)
				mh := refe4.Header{Device: h.device, R: toLibR, Stream: byte(1 + t.Choose("scn", 126)), Func: byte(2 * t.Choose("scn", 100)), Num: 1, Sys: sys}
				switch carryKind {
				case 0:
					plan = append(plan, txPlan{Kind: "first-block-then-the-link-dies", H: mh, Body: body(50+g, 244), Valid: true, Gap: time.Millisecond})
				default:
					mh.E = true
					plan = append(plan, txPlan{Kind: "single-block-then-the-link-dies", H: mh, Body: body(60+g, t.Choose("scn", 245)), Valid: true, Gap: time.Millisecond})
				}
				if carryKind != 2 {
					c := plan[len(plan)-1]
					carry = &c
				}
				h.ends = append(h.ends, t.Choose("scn", 2) == 1)
			}
			for i := range plan {
				plan[i].Raw = refe4.Wire(plan[i].H, plan[i].Body)
			}
			h.plans = append(h.plans, plan)
		}
		h.r = rig.NewSECS1(w, rig.Opts1{Active: h.active, Equip: h.equip, Device: h.device, T1: t1, T2: t2, T3: 2 * time.Second, T4: h.t4, T5: 100 * time.Millisecond,
			Retry: -1, BackoffInit: 20 * time.Millisecond, BackoffMult: 1, CloseTimeout: time.Second})
		r := h.r
		if h.active {
			r.N.OnConnect = func(l *simnet.Link) simnet.RawEnd {
				if g := h.cur(); (g != nil && !g.p.Dead) || len(h.gens) >= len(h.plans) {
					return nil
				}
				g := h.newGen()
				g.p.L, g.l = l, l

				return g.p
			}
		} else {
			var tick func()
			tick = func() {
				if h.stop || h.done {
					return
				}
				if g := h.cur(); (g == nil || g.p.Dead) && len(h.gens) < len(h.plans) && r.N.Listening(rig.Addr) && len(r.N.Listeners) > h.usedLn {
					h.usedLn = len(r.N.Listeners)
					g := h.newGen()
					if l := r.N.PeerConnect(rig.Addr, g.p); l != nil {
						g.p.L, g.l = l, l
					} else {
						h.gens = h.gens[:len(h.gens)-1]
					}
				}
				w.After(3*time.Millisecond, "peer-dial-tick", tick)
			}
			w.After(0, "peer-dial-tick", tick)
		}
		r.Open()
		w.AddMonitor(func() {
			g := h.cur()
			if g == nil || g.started || g.p.Dead || !r.Selected() {
				return
			}
			g.started = true
			h.sendNext(g)
		})
		var desc [][]string
		for _, pl := range h.plans {
			var ks []string
			for _, p := range pl {
				ks = append(ks, fmt.Sprintf("%s(blk=%d,E=%v,%dB)", p.Kind, p.H.Num, p.H.E, len(p.Body)))
			}
			desc = append(desc, ks)
		}

		return &core.Scenario{
			Desc:       map[string]any{"direction": "inbound over several generations", "active": h.active, "equip": h.equip, "device": h.device, "T4": h.t4.String(), "generations": desc, "endedByReset": h.ends},
			Horizon:    60 * time.Second,
			Done:       func() bool { return h.done && w.Idle() },
			Final:      h.final,
			Cleanup:    func() { h.stop = true; _ = r.C.Close() },
			Nontrivial: func() bool { return h.done && len(h.gens) >= 2 },
		}
	}
}

func (h *regen) cur() *rgGen {
	if len(h.gens) == 0 {
		return nil
	}

	return h.gens[len(h.gens)-1]
}

func (h *regen) newGen() *rgGen {
	g := &rgGen{n: len(h.gens) + 1}
	g.plan = h.plans[len(h.gens)]
	g.p = refe4.New(h.w, !h.equip, t1, t2)
	h.gens = append(h.gens, g)
	h.w.Logf("regen: generation %d up", g.n)

	return g
}

func (h *regen) sendNext(g *rgGen) {
	w := h.w
	if g.next >= len(g.plan) {
		g.over = true
		if g.n >= len(h.plans) {
			w.After(50*time.Millisecond, "regen-done", func() { h.done = true })

			return
		}
		w.After(2*time.Millisecond, "kill-generation", func() {
			if h.ends[g.n-1] {
				w.Fault("rst")
				g.rst = true
				g.l.RST()
			} else {
				w.Fault("fin")
				g.l.FIN()
			}
		})

		return
	}
	p := g.plan[g.next]
	g.next++
	w.After(p.Gap, "peer-send-block", func() {
		if g.p.Dead {
			return
		}
		g.p.SendBlock(p.Raw, nil, nil, func(res refe4.TxResult) {
			g.results = append(g.results, res)
			h.sendNext(g)
		})
	})
}

func (h *regen) final(reason string) {
	w := h.w
	ctx := func() string {
		var s []string
		for _, g := range h.gens {
			for i, p := range g.plan {
				at := time.Duration(-1)
				if i < len(g.results) {
					at = g.results[i].SentAt
				}
				s = append(s, fmt.Sprintf("G%d:%s@%v", g.n, p.Kind, at))
			}
		}

		return fmt.Sprintf("\n  blocks: %v", s)
	}
	if !h.done {
		w.Fail("BLOCKED", "the script did not complete (reason %s, %d of %d generations, state %v)%s", reason, len(h.gens), len(h.plans), h.r.C.State(), ctx())

		return
	}
	var want []refe4.Message
	var wantGen []int
	for _, g := range h.gens {
		ref := &refe4.Assembler{Device: h.device, ToHost: !h.equip, T4: h.t4}
		for i, p := range g.plan {
			if i >= len(g.results) || g.results[i].Outcome != "ack" {
				out := "nothing"
				if i < len(g.results) {
					out = g.results[i].Outcome
				}
				w.Fail("HANDSHAKE", "generation %d block #%d (%s, %s): the library answered %q, want \"ack\"%s", g.n, i, p.Kind, p.H, out, ctx())

				return
			}
			ref.Feed(p.H, p.Body, g.results[i].SentAt)
		}
		for _, m := range ref.Out {
			want = append(want, m)
			wantGen = append(wantGen, g.n)
		}
		for k, v := range ref.Dropped {
			w.Probes["ref_dropped_"+k] += v
		}
	}
	got := h.r.Deliveries
	for i := 0; i < len(want) || i < len(got); i++ {
		if i >= len(want) {
			w.Fail("DELIVERY", "the handler received a message (#%d: header %x, %d body bytes) that no generation's blocks add up to: %d messages arrived complete, in order and within T4 on one connection%s", i, got[i].Hdr, len(got[i].Body), len(want), ctx())

			return
		}
		m := want[i]
		var hdr [10]byte
		hdr[0], hdr[1] = byte(m.H.Device>>8), byte(m.H.Device)
		hdr[2] = m.H.Stream
		if m.H.W {
			hdr[2] |= 0x80
		}
		hdr[3] = m.H.Func
		hdr[6], hdr[7], hdr[8], hdr[9] = byte(m.H.Sys>>24), byte(m.H.Sys>>16), byte(m.H.Sys>>8), byte(m.H.Sys)
		if i >= len(got) {
			w.Fail("DELIVERY", "message #%d (generation %d, header %x, %d body bytes) arrived complete on its connection but was never delivered (%d of %d delivered)%s", i, wantGen[i], hdr, len(m.Body), len(got), len(want), ctx())

			return
		}
		if d := got[i]; d.Hdr != hdr || !bytes.Equal(d.Body, m.Body) {
			w.Fail("DELIVERY", "message #%d (generation %d): delivered header %x body %d bytes; the reference says header %x body %d bytes (first difference at %d)%s", i, wantGen[i], d.Hdr, len(d.Body), hdr, len(m.Body), firstDiff(d.Body, m.Body), ctx())

			return
		}
	}
	if h.r.C.State() != hsms.SelectedState || h.cur().p.Dead {
		w.Fail("LINK", "the last generation went down (state %v)%s", h.r.C.State(), ctx())

		return
	}
	w.Probes["ref_delivered"] += len(want)
	w.Probe("generations_assembled_apart")
}
