// Package c17 decides property C17: every message a SECS-I connection transmits appears on the
// line as well-formed SEMI E4 blocks, and for every inbound block sequence exactly the messages
// whose blocks arrive complete, in order, correctly addressed and within T4 are delivered,
// byte-identical, while duplicates, misaddressed, out-of-sequence and corrupt blocks are never
// delivered and never take the link down.
package c17

import (
	"bytes"
	"context"
	"fmt"
	"time"

	"github.com/arloliu/go-secs/v2/hsms"
	"github.com/arloliu/go-secs/v2/secs2"
	"github.com/arloliu/go-secs/v2/verifsim/core"
	"github.com/arloliu/go-secs/v2/verifsim/refe4"
	"github.com/arloliu/go-secs/v2/verifsim/rig"
	"github.com/arloliu/go-secs/v2/verifsim/simnet"
)

const (
	t1 = 50 * time.Millisecond
	t2 = 300 * time.Millisecond
)

type common struct {
	w      *core.World
	r      *rig.Rig1
	p      *refe4.Peer
	active bool
	equip  bool
	device uint16
	peerUp bool
}

func (c *common) setup(w *core.World, active, equip bool, device uint16, t4 time.Duration) {
	c.w, c.active, c.equip, c.device = w, active, equip, device
	c.r = rig.NewSECS1(w, rig.Opts1{Active: active, Equip: equip, Device: device, T1: t1, T2: t2, T3: 2 * time.Second, T4: t4, T5: time.Second,
		Retry: -1, BackoffInit: 5 * time.Second, BackoffMult: 1, CloseTimeout: time.Second})
	// the peer is the other role: master iff the library end is the host
	c.p = refe4.New(w, !equip, t1, t2)
	if active {
		c.r.N.OnConnect = func(l *simnet.Link) simnet.RawEnd {
			if c.peerUp {
				return nil
			}
			c.peerUp = true
			c.p.L = l

			return c.p
		}
	} else {
		var try func()
		try = func() {
			if c.peerUp {
				return
			}
			if c.r.N.Listening(rig.Addr) {
				if l := c.r.N.PeerConnect(rig.Addr, c.p); l != nil {
					c.p.L = l
					c.peerUp = true

					return
				}
			}
			w.After(2*time.Millisecond, "peer-connect", try)
		}
		w.After(0, "peer-connect", try)
	}
	c.r.Open()
}

// ---------------------------------------------------------------- outbound

type outMsg struct {
	Stream, Func byte
	W            bool
	N            int // data bytes of the binary item (-1 = empty body)
	want         []byte
	err          error
	done         bool
	reply        bool
	// Fwd: a pre-built message relayed verbatim (ForwardDataMessage): its system bytes are the
	// originator's, and several relayed messages in a row may carry the very same header
	Fwd  bool
	Sys  uint32
	Sess uint16
}

type outbound struct {
	common
	msgs    []*outMsg
	started bool
	allDone bool
}

var sizes = []int{-1, 0, 1, 8, 241, 242, 243, 244, 255, 256, 484, 485, 486, 487, 729, 730}

func buildOutbound() core.BuildFunc {
	return func(w *core.World) *core.Scenario {
		t := w.T
		h := &outbound{}
		active, equip := t.Choose("scn", 2) == 1, t.Choose("scn", 2) == 1
		device := uint16(t.Choose("scn", 32768))
		n := 1 + t.Choose("scn", 6)
		for i := 0; i < n; i++ {
			m := &outMsg{Stream: byte(1 + t.Choose("scn", 126)), Func: byte(1 + 2*t.Choose("scn", 100)), W: t.Choose("scn", 3) == 0}
			if t.Bias("scn", 3, 4) {
				m.N = sizes[t.Choose("scn", len(sizes))]
			} else {
				m.N = t.Choose("scn", 2000)
			}
			if t.Choose("scn", 25) == 0 {
				// a message of more than 255 blocks: the block number needs its high byte
				m.N = []int{62300, 70004, 131000}[t.Choose("scn", 3)]
			}
			if !m.W && t.Choose("scn", 2) == 0 {
				m.Func++ // an even function (a secondary) without W
			}
			h.msgs = append(h.msgs, m)
		}
		if t.Choose("scn", 2) == 1 {
			// a relay: 2-4 pre-built messages of one originator that re-uses one system-bytes value (and
			// so one block header) for different bodies; placed anywhere among the other messages
			k := 2 + t.Choose("scn", 3)
			tmpl := outMsg{Stream: byte(1 + t.Choose("scn", 126)), Func: byte(2 * t.Choose("scn", 100)), Fwd: true, Sys: uint32(0x70000000 + t.Choose("scn", 1<<20)), Sess: device}
			if t.Choose("scn", 2) == 1 {
				tmpl.Sess = uint16(t.Choose("scn", 32768))
			}
			at := t.Choose("scn", len(h.msgs)+1)
			var fw []*outMsg
			last := -2
			for i := 0; i < k; i++ {
				m := tmpl
				for m.N = last; m.N == last; {
					m.N = []int{0, 1, 8, 200, 244, 245, 300, 600}[t.Choose("scn", 8)]
				}
				last = m.N
				fw = append(fw, &m)
			}
			h.msgs = append(h.msgs[:at], append(fw, h.msgs[at:]...)...)
		}
		h.setup(w, active, equip, device, time.Second)
		// the peer answers W-bit primaries once the message is complete
		h.p.OnBlock = func(b refe4.RxBlock) {
			if b.Valid && b.H.E && b.H.W {
				rh := refe4.Header{Device: device, R: !b.H.R, Stream: b.H.Stream, Func: b.H.Func + 1, Num: 1, E: true, Sys: b.H.Sys}
				h.p.SendBlock(refe4.Wire(rh, []byte{0x21, 0x01, 0x00}), nil, nil, nil)
			}
		}
		w.AddMonitor(func() {
			if h.started || !h.r.Selected() || !h.peerUp {
				return
			}
			h.started = true
			w.Go("app", h.app)
		})
		var desc []string
		for _, m := range h.msgs {
			desc = append(desc, fmt.Sprintf("S%dF%d W=%v data=%d relayed=%v", m.Stream, m.Func, m.W, m.N, m.Fwd))
		}

		return &core.Scenario{
			Desc:       map[string]any{"direction": "outbound", "active": active, "equip": equip, "device": device, "messages": desc},
			Horizon:    60 * time.Second,
			Done:       func() bool { return h.allDone && w.Idle() },
			Final:      h.final,
			Cleanup:    func() { _ = h.r.C.Close() },
			Nontrivial: func() bool { return h.allDone },
		}
	}
}

func (h *outbound) app() {
	for i, m := range h.msgs {
		var item secs2.Item
		if m.N >= 0 {
			data := make([]byte, m.N)
			for k := range data {
				data[k] = byte(k*7 + i)
			}
			item = secs2.B(data)
			if m.N <= 255 {
				m.want = append([]byte{0x21, byte(m.N)}, data...)
			} else if m.N > 65535 {
				m.want = append([]byte{0x23, byte(m.N >> 16), byte(m.N >> 8), byte(m.N)}, data...)
			} else {
				m.want = append([]byte{0x22, byte(m.N >> 8), byte(m.N)}, data...)
			}
		}
		if m.Fwd {
			h.w.Probe("relayed_message_with_reused_header")
			fm, err := hsms.NewDataMessage(m.Stream, m.Func, false, m.Sess, [4]byte{byte(m.Sys >> 24), byte(m.Sys >> 16), byte(m.Sys >> 8), byte(m.Sys)}, item)
			if err == nil {
				err = h.r.C.ForwardDataMessage(context.Background(), fm)
			}
			m.err, m.done = err, true
			core.Sleep(time.Duration(h.w.T.Choose("app", 4)) * time.Millisecond)

			continue
		}
		rep, err := h.r.C.SendDataMessage(context.Background(), m.Stream, m.Func, m.W, item)
		m.err, m.done, m.reply = err, true, rep != nil
		core.Sleep(time.Duration(1+h.w.T.Choose("app", 20)) * time.Millisecond)
	}
	h.allDone = true
}

func (h *outbound) final(reason string) {
	w := h.w
	if !h.allDone {
		w.Fail("BLOCKED", "the sends did not complete (reason %s, state %v, peer up %v)", reason, h.r.C.State(), h.peerUp)

		return
	}
	var rx []refe4.RxBlock
	for _, b := range h.p.Rx {
		rx = append(rx, b)
	}
	k := 0
	var seenSys []uint32
	for i, m := range h.msgs {
		if m.err != nil {
			w.Fail("SEND_FAILED", "message %d (S%dF%d, %d data bytes) failed over a fault-free line: %v", i, m.Stream, m.Func, m.N, m.err)

			return
		}
		if m.W && !m.reply {
			w.Fail("SEND_FAILED", "message %d: W-bit send returned no reply", i)

			return
		}
		var body []byte
		num := uint16(1)
		var first refe4.Header
		for {
			if k >= len(rx) {
				w.Fail("BLOCKS", "message %d (S%dF%d W=%v, body %d bytes): the line carried no (more) blocks for it", i, m.Stream, m.Func, m.W, len(m.want))

				return
			}
			b := rx[k]
			k++
			if !b.Valid {
				w.Fail("BLOCK_FORMAT", "message %d block %d is malformed on the line: %s (raw % x ...)", i, num, b.Why, clip(b.Raw))

				return
			}
			if len(b.Body) > 244 {
				w.Fail("BLOCK_FORMAT", "message %d block %d carries %d body bytes (> 244)", i, num, len(b.Body))

				return
			}
			if b.H.Num != num {
				w.Fail("BLOCK_NUMBER", "message %d: block number %d where %d is due (%s)", i, b.H.Num, num, b.H)

				return
			}
			if num == 1 && m.Fwd {
				first = b.H
				first.Sys = m.Sys
			} else if num == 1 {
				first = b.H
				for _, s := range seenSys {
					if s == b.H.Sys {
						w.Fail("SYSTEM_BYTES", "message %d reuses system bytes %d", i, s)

						return
					}
				}
				seenSys = append(seenSys, b.H.Sys)
			}
			want := refe4.Header{Device: h.device, R: h.equip, Stream: m.Stream, W: m.W, Func: m.Func, Num: num, E: b.H.E, Sys: first.Sys}
			if b.H != want {
				w.Fail("BLOCK_HEADER", "message %d block %d header is {%s}, want {%s} (device id of the configuration, R-bit of the role, the message's stream/function/W, constant system bytes)", i, num, b.H, want)

				return
			}
			body = append(body, b.Body...)
			if b.H.E {
				break
			}
			if len(b.Body) != 244 {
				w.Fail("BLOCK_FORMAT", "message %d block %d is not the last one but carries only %d body bytes", i, num, len(b.Body))

				return
			}
			num++
		}
		if !bytes.Equal(body, m.want) {
			w.Fail("BODY", "message %d: the block bodies concatenate to %d bytes, the SECS-II encoding is %d bytes (first difference at %d)", i, len(body), len(m.want), firstDiff(body, m.want))

			return
		}
		wantBlocks := (len(m.want) + 243) / 244
		if wantBlocks == 0 {
			wantBlocks = 1
		}
		if int(num) != wantBlocks {
			w.Fail("BLOCK_COUNT", "message %d with a %d-byte body went out as %d blocks, want %d", i, len(m.want), num, wantBlocks)

			return
		}
		w.Probe(fmt.Sprintf("outbound_blocks_%d", min(int(num), 4)))
		if num > 255 {
			w.Probe("outbound_message_of_more_than_255_blocks")
		}
	}
	if k != len(rx) {
		w.Fail("BLOCKS", "the line carried %d blocks beyond the %d messages sent", len(rx)-k, len(h.msgs))

		return
	}
	if h.r.C.State() != hsms.SelectedState || h.p.Dead {
		w.Fail("LINK", "the link went down (state %v)", h.r.C.State())
	}
}

func clip(b []byte) []byte {
	if len(b) > 24 {
		return b[:24]
	}

	return b
}

func firstDiff(a, b []byte) int {
	for i := 0; i < len(a) && i < len(b); i++ {
		if a[i] != b[i] {
			return i
		}
	}

	return min(len(a), len(b))
}

// ---------------------------------------------------------------- inbound

type txPlan struct {
	Kind  string
	Raw   []byte
	Valid bool // a well-formed block on the wire (must be ACKed)
	H     refe4.Header
	Body  []byte
	Gap   time.Duration // pause before this transmission
	// Contend (library end is the host): the application sends at that moment and the peer, the
	// master, answers the library's ENQ with an ENQ of its own — the block then reaches the library
	// while it is yielding, not on the idle line
	Contend bool
	// Cuts/Gaps: the bytes of this transmission are sent in pieces with pauses (a dribbling sender)
	Cuts []int
	Gaps []time.Duration
}

type inbound struct {
	common
	t4      time.Duration
	plan    []txPlan
	results []refe4.TxResult
	next    int
	started bool
	done    bool
	contend *txPlan // the block the peer will send when the library's next ENQ arrives
	appSeq  int
	builtT4 time.Duration // the T4 the connection was built with (differs from t4 when it is updated at run time)
}

func buildInbound() core.BuildFunc {
	return func(w *core.World) *core.Scenario {
		t := w.T
		h := &inbound{}
		active, equip := t.Choose("scn", 2) == 1, t.Choose("scn", 2) == 1
		device := uint16(t.Choose("scn", 32768))
		h.t4 = []time.Duration{200 * time.Millisecond, 500 * time.Millisecond}[t.Choose("scn", 2)]
		toLibR := !equip // blocks directed to the library end: R=1 when it is the host
		nm := 1 + t.Choose("scn", 6)
		sys := uint32(1000)
		for mi := 0; mi < nm; mi++ {
			sys++
			nb := 1 + t.Choose("scn", 4)
			mh := refe4.Header{Device: device, R: toLibR, Stream: byte(1 + t.Choose("scn", 126)), W: t.Choose("scn", 2) == 1, Func: byte(t.Choose("scn", 256)), Sys: sys}
			zeroFirst := nb == 1 && t.Bias("scn", 1, 5)
			for bi := 0; bi < nb; bi++ {
				hd := mh
				hd.Num = uint16(bi + 1)
				hd.E = bi == nb-1
				if zeroFirst {
					hd.Num = 0
				}
				body := make([]byte, t.Choose("scn", 245))
				if bi < nb-1 && t.Bias("scn", 1, 2) {
					body = make([]byte, 244)
				}
				for k := range body {
					body[k] = byte(mi*31 + bi*7 + k)
				}
				gap := time.Duration(1+t.Choose("scn", 5)) * time.Millisecond
				p := txPlan{Kind: "valid", H: hd, Body: body, Valid: true, Gap: gap}
				switch t.Weighted("scn", 12, 2, 1, 1, 1, 1, 1, 1, 1, 1, 1, 2, 2) {
				case 12: // a block addressed to another device, or travelling the other way, INSERTED before this block (it must disturb nothing)
					sh := hd
					kind := "stray-wrong-device"
					if t.Choose("scn", 2) == 0 {
						sh.Device = (device + 1 + uint16(t.Choose("scn", 100))) & 0x7FFF
					} else {
						sh.R = !sh.R
						kind = "stray-wrong-direction"
					}
					if t.Choose("scn", 2) == 0 {
						sh.Sys += 1000 // a different message altogether
						sh.Num, sh.E = 1, true
					}
					sb := []byte{byte(mi), 0xDD}
					h.plan = append(h.plan, txPlan{Kind: kind, H: sh, Body: sb, Valid: true, Gap: gap, Raw: refe4.Wire(sh, sb)})
				case 11: // a stray block 0 without the E-bit, same message header, INSERTED before this block
					sh := hd
					sh.Num, sh.E = 0, false
					sb := []byte{byte(mi), 0xEE}
					h.plan = append(h.plan, txPlan{Kind: "stray-block-0-without-E", H: sh, Body: sb, Valid: true, Gap: gap, Raw: refe4.Wire(sh, sb)})
				case 1: // retransmitted duplicate (as if our ACK had been lost)
					p.Raw = refe4.Wire(hd, body)
					h.plan = append(h.plan, p)
					p = txPlan{Kind: "duplicate", H: hd, Body: body, Valid: true, Gap: gap}
				case 2: // this block is lost: the next one arrives out of sequence
					continue
				case 3:
					p.Kind = "header-changed"
					switch t.Choose("scn", 4) {
					case 0:
						p.H.Stream ^= 1
					case 1:
						p.H.Func++
					case 2:
						p.H.W = !p.H.W
					default:
						p.H.Sys += 7
					}
				case 4:
					p.Kind = "wrong-device"
					p.H.Device = (device + 1 + uint16(t.Choose("scn", 100))) & 0x7FFF
				case 5:
					p.Kind = "wrong-direction"
					p.H.R = !p.H.R
				case 6:
					p.Kind = "bad-checksum"
					p.Valid = false
				case 7:
					p.Kind = "bad-length"
					p.Valid = false
				case 8:
					p.Kind = "block-0-without-E"
					p.H.Num, p.H.E = 0, false
				case 9:
					p.Kind = "t4-gap"
					p.Gap = h.t4 + 20*time.Millisecond
				case 10:
					p.Kind = "near-t4-gap"
					p.Gap = h.t4 - 20*time.Millisecond - t2/10
				}
				p.Raw = refe4.Wire(p.H, p.Body)
				if p.Kind == "valid" && t.Choose("scn", 6) == 0 {
					// a slow but legal sender: the length byte comes later than T1 (but inside T2) after our
					// EOT, and/or the block arrives in pieces whose gaps are each below T1 while the whole
					// takes longer than T1 — T1 is an inter-character timeout, T2 the one for the first byte
					p.Kind = "valid-slow"
					first := time.Millisecond
					if t.Choose("scn", 2) == 1 {
						first = t1 + 60*time.Millisecond
					}
					p.Gaps = []time.Duration{first}
					if n := len(p.Raw); n >= 8 && t.Choose("scn", 3) != 0 {
						p.Cuts = []int{n / 4, n / 2, 3 * n / 4}
						g := t1 * 6 / 10
						p.Gaps = []time.Duration{first, g, g, g}
					}
				}
				switch p.Kind {
				case "bad-checksum":
					p.Raw[len(p.Raw)-1-t.Choose("scn", 2)] ^= byte(1 + t.Choose("scn", 255))
				case "bad-length":
					p.Raw = append([]byte{[]byte{0, 5, 9, 255}[t.Choose("scn", 4)]}, p.Raw[1:]...)
					if t.Choose("scn", 2) == 0 {
						// the rest of the damaged transmission dribbles in: pieces 0.6*T1 apart for well over T1 in
						// all, and late in it comes what would read on an idle line as ENQ + a complete block for
						// this receiver. All of it is the tail of ONE bad block: discarded until the line is silent.
						p.Kind = "bad-length-dribbling"
						gh := refe4.Header{Device: device, R: toLibR, Stream: 99, Func: 1, Num: 1, E: true, Sys: 0x7777}
						p.Raw = append(append(append([]byte(nil), p.Raw...), bytes.Repeat([]byte{0x20}, 24)...), append([]byte{0x05}, refe4.Wire(gh, []byte{0x41, 0x05, 'g', 'h', 'o', 's', 't'})...)...)
						n := len(p.Raw)
						p.Cuts = []int{n / 5, 2 * n / 5, 3 * n / 5, 4 * n / 5}
						g := t1 * 6 / 10
						p.Gaps = []time.Duration{time.Millisecond, g, g, g, g}
					}
				}
				h.plan = append(h.plan, p)
			}
		}
		if len(h.plan) == 0 {
			hd := refe4.Header{Device: device, R: toLibR, Stream: 1, Func: 1, Num: 1, E: true, Sys: 1}
			h.plan = append(h.plan, txPlan{Kind: "valid", H: hd, Valid: true, Raw: refe4.Wire(hd, nil), Gap: time.Millisecond})
		}
		if !equip {
			for i := range h.plan {
				if h.plan[i].Gap < h.t4/2 && t.Choose("scn", 4) == 0 {
					h.plan[i].Contend = true
				}
			}
		}
		h.builtT4 = h.t4
		if t.Choose("scn", 3) == 0 {
			// the connection is built with another T4 and told the real one at run time, before any block
			h.builtT4 = []time.Duration{5 * time.Second, 60 * time.Millisecond}[t.Choose("scn", 2)]
		}
		h.setup(w, active, equip, device, h.builtT4)
		h.p.Grant = func() bool {
			if h.contend == nil {
				return true
			}
			pp := *h.contend
			h.contend = nil
			w.Probe("block_sent_into_a_contention_yield")
			h.transmitPlanned(pp)

			return false
		}
		w.AddMonitor(func() {
			if h.started || !h.r.Selected() || !h.peerUp {
				return
			}
			h.started = true
			if h.builtT4 != h.t4 {
				if err := h.r.C.UpdateConfigOptions(hsms.WithT4(h.t4)); err != nil {
					w.Fail("HARNESS", "UpdateConfigOptions(WithT4): %v", err)

					return
				}
				w.Probe("t4_updated_at_run_time")
			}
			h.sendNext()
		})
		var kinds []string
		for _, p := range h.plan {
			kinds = append(kinds, fmt.Sprintf("%s(blk=%d,E=%v,%dB)", p.Kind, p.H.Num, p.H.E, len(p.Body)))
		}

		return &core.Scenario{
			Desc:       map[string]any{"direction": "inbound", "active": active, "equip": equip, "device": device, "T4": h.t4.String(), "builtWithT4": h.builtT4.String(), "blocks": kinds},
			Horizon:    120 * time.Second,
			Done:       func() bool { return h.done && w.Idle() },
			Final:      h.final,
			Cleanup:    func() { _ = h.r.C.Close() },
			Nontrivial: func() bool { return h.done && len(h.plan) > 1 },
		}
	}
}

func (h *inbound) transmitPlanned(p txPlan) {
	h.p.SendBlock(p.Raw, p.Cuts, p.Gaps, func(res refe4.TxResult) {
		h.results = append(h.results, res)
		h.sendNext()
	})
}

func (h *inbound) sendNext() {
	if h.next >= len(h.plan) {
		h.w.After(50*time.Millisecond, "inbound-done", func() { h.done = true })

		return
	}
	p := h.plan[h.next]
	h.next++
	if p.Contend && !h.equip {
		w := h.w
		w.After(p.Gap, "contend", func() {
			pp := p
			h.contend = &pp
			h.appSeq++
			n := h.appSeq
			w.Go(fmt.Sprintf("app-send%d", n), func() {
				_, _ = h.r.C.SendDataMessage(context.Background(), 1, 3, false, secs2.A(fmt.Sprintf("out%d", n)))
			})
			// if the library's ENQ never shows up, send the block on the idle line after all
			w.After(t2, "contend-fallback", func() {
				if h.contend == &pp {
					h.contend = nil
					h.transmitPlanned(pp)
				}
			})
		})

		return
	}
	h.w.After(p.Gap, "peer-send-block", func() {
		h.p.SendBlock(p.Raw, p.Cuts, p.Gaps, func(res refe4.TxResult) {
			h.results = append(h.results, res)
			h.sendNext()
		})
	})
}

func (h *inbound) final(reason string) {
	w := h.w
	if !h.done {
		w.Fail("BLOCKED", "the inbound script did not complete (reason %s, %d of %d blocks, state %v)", reason, len(h.results), len(h.plan), h.r.C.State())

		return
	}
	ref := &refe4.Assembler{Device: h.device, ToHost: !h.equip, T4: h.t4}
	for i, p := range h.plan {
		res := h.results[i]
		want := "nak"
		if p.Valid {
			want = "ack"
		}
		if res.Outcome != want {
			w.Fail("HANDSHAKE", "block #%d (%s, %s): the library answered %q, want %q", i, p.Kind, p.H, res.Outcome, want)

			return
		}
		if p.Valid {
			ref.Feed(p.H, p.Body, res.SentAt)
		}
	}
	got := h.r.Deliveries
	if len(got) != len(ref.Out) {
		w.Fail("DELIVERY", "the handler received %d messages; the reference assembler (complete, in order, correctly addressed, within T4) says %d. reference drops: %v%s", len(got), len(ref.Out), ref.Dropped, h.ctx())

		return
	}
	for i, m := range ref.Out {
		d := got[i]
		var hdr [10]byte
		hdr[0], hdr[1] = byte(m.H.Device>>8), byte(m.H.Device)
		hdr[2] = m.H.Stream
		if m.H.W {
			hdr[2] |= 0x80
		}
		hdr[3] = m.H.Func
		hdr[6], hdr[7], hdr[8], hdr[9] = byte(m.H.Sys>>24), byte(m.H.Sys>>16), byte(m.H.Sys>>8), byte(m.H.Sys)
		if d.Hdr != hdr || !bytes.Equal(d.Body, m.Body) {
			w.Fail("DELIVERY", "message %d: delivered header %x body %d bytes; the reference says header %x body %d bytes (first difference at %d)%s", i, d.Hdr, len(d.Body), hdr, len(m.Body), firstDiff(d.Body, m.Body), h.ctx())

			return
		}
	}
	if h.r.C.State() != hsms.SelectedState || h.p.Dead || h.r.N.Dials+h.r.N.Listens > 1 {
		w.Fail("LINK", "the link went down during the inbound sequence (state %v, peer dead %v)%s", h.r.C.State(), h.p.Dead, h.ctx())

		return
	}
	for k, v := range ref.Dropped {
		w.Probes["ref_dropped_"+k] += v
	}
	w.Probes["ref_delivered"] += len(ref.Out)
}

func (h *inbound) ctx() string {
	var s []string
	for i, p := range h.plan {
		at := time.Duration(-1)
		if i < len(h.results) {
			at = h.results[i].SentAt
		}
		s = append(s, fmt.Sprintf("%s@%v", p.Kind, at))
	}

	return fmt.Sprintf("\n  blocks: %v", s)
}

// Build selects the configuration.
func Build(config string) core.BuildFunc {
	if config == "inbound" {
		return buildInbound()
	}
	if config == "inbound-regen" {
		return buildRegen()
	}

	return buildOutbound()
}
