package c17

import (
	"testing"

	"github.com/arloliu/go-secs/v2/verifsim/core"
)

func TestWorker(t *testing.T) {
	core.WorkerMain(t, core.Property{ID: "C17", Configs: []string{"outbound", "inbound"}, Build: Build})
}
