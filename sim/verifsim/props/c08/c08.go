// Package c08 decides property C08: the HSMS-SS control procedures answer every peer frame
// sequence exactly as SEMI E37 / E37.1 prescribe (executable responder model, exact frame equality).
package c08

import (
	"bytes"
	"context"
	"fmt"
	"time"

	"github.com/arloliu/go-secs/v2/hsms"
	"github.com/arloliu/go-secs/v2/secs2"
	"github.com/arloliu/go-secs/v2/verifsim/core"
	"github.com/arloliu/go-secs/v2/verifsim/refhsms"
	"github.com/arloliu/go-secs/v2/verifsim/rig"
	"github.com/arloliu/go-secs/v2/verifsim/simnet"
)

const barrierSys = 0x7FFFFFF1

type frame struct {
	H     refhsms.Header
	Body  []byte
	Class string
}

type scenario struct {
	Active    bool
	Equip     bool
	Validate  bool
	Session   uint16
	Seq       []frame
	SelectAt  int  // active SUT: position in Seq at which the peer answers the SUT's Select.req (-1 never)
	SelStatus byte // status of that answer
	PreSelect bool // passive SUT: the peer starts with a proper Select.req
	SecondAt  int  // passive SUT: position at which a second TCP connection is attempted (-1 none)
	Cuts      []int
	Gaps      []time.Duration
	// faulty configuration: the peer stops reading for Stall right when it transmits (its receive
	// window closes; the library's responses back up behind a Cap-byte send buffer and a Queue-deep
	// sender queue), then reads again. Every answer must still arrive, exact and in order.
	Stall time.Duration
	Cap   int
	Queue int
	T6    time.Duration
	// AppPrimary: (passive, leading Select.req) the application has a W-bit data primary outstanding
	// while the rest of the sequence arrives, and half of the sequence's orphan control responses
	// carry ITS system bytes: a control response never completes a data transaction — Reject reason 3
	AppPrimary bool
	// LiftBound: (passive, leading Select.req) the connection is built with a 150 ms write bound; once
	// Selected the application lifts it (UpdateConfigOptions(WithWriteTimeout(0))) and the line then
	// idles for 400 ms before the rest of the sequence: no stale deadline may fail the answers
	LiftBound bool
}

type harness struct {
	w         *core.World
	r         *rig.Rig
	sc        scenario
	c         *refhsms.Conn
	c2        *refhsms.Conn
	sent      bool
	sutSelSys uint32
	expect    []refhsms.Header // expected outbound frames (body checked separately for S9F1)
	expectS9  map[int][10]byte // index in expect -> offending header for S9F1
	// optS9: expected S9F1s that the library may legitimately never write. S9F1 is a DATA message
	// queued on the asynchronous send path; if the peer's sequence deselects the session before
	// the writer goroutine drains the queue, the library's not-selected gate drops it (data flows
	// only while Selected, C07). So an S9F1 followed later in the same sequence by a frame that takes the
	// session out of Selected (Deselect.req, Separate.req, refused select) is optional (if present it
	// must be exact and in FIFO position); otherwise it is mandatory.
	optS9                                           map[int]bool
	expDeliv                                        []frame
	expSel                                          bool
	expEnd                                          bool // the sequence makes the SUT close the connection
	endAt                                           int
	secondTried                                     bool
	staged, appSent, appDone, appNilNil, haveAppSys bool
	appSys                                          uint32
	appErr                                          error
	secondAt                                        time.Duration
	sentAt                                          time.Duration
}

func genFrame(t *core.Tape, cfgSession uint16, i int) frame {
	sess := cfgSession
	if t.Bias("scn", 1, 4) {
		sess = uint16(t.Choose("scn", 65536))
	}
	sys := uint32(0x10000 + t.Choose("scn", 1<<20))
	ctl := func(st byte, class string) frame {
		h := refhsms.Header{Session: sess, SType: st, Sys: sys}
		if t.Bias("scn", 1, 4) {
			h.B2 = byte(t.Choose("scn", 256))
		}
		if t.Bias("scn", 1, 4) {
			h.B3 = byte(t.Choose("scn", 256))
		}

		return frame{H: h, Class: class}
	}
	switch t.Weighted("scn", 6, 5, 4, 4, 2, 3, 2, 3, 3, 3) {
	case 0: // data
		stream := byte(t.Choose("scn", 128))
		fn := byte(t.Choose("scn", 256))
		w := t.Choose("scn", 2) == 1
		h := refhsms.DataHeader(sess, stream, fn, w, sys)
		var body []byte
		if t.Choose("scn", 4) != 0 {
			body = refhsms.ASCII(fmt.Sprintf("d%d", i))
		}

		return frame{H: h, Body: body, Class: "data"}
	case 1:
		return ctl(refhsms.STSelectReq, "select.req")
	case 2:
		return ctl(refhsms.STDeselectReq, "deselect.req")
	case 3:
		f := ctl(refhsms.STLinktestReq, "linktest.req")

		return f
	case 4:
		return ctl(refhsms.STSeparateReq, "separate.req")
	case 5:
		st := []byte{refhsms.STSelectRsp, refhsms.STDeselectRsp, refhsms.STLinktestRsp}[t.Choose("scn", 3)]

		return ctl(st, "orphan.rsp")
	case 6:
		return ctl(refhsms.STRejectReq, "reject.req")
	case 7: // undefined SType
		sts := []byte{8, 10, 11, 127, 128, 254, 255}
		st := sts[t.Choose("scn", len(sts))]
		if t.Bias("scn", 1, 2) {
			st = byte(10 + t.Choose("scn", 246))
		}
		f := ctl(st, "undefined.stype")
		if t.Bias("scn", 1, 3) {
			f.Body = bytes.Repeat([]byte{0xAA}, 1+t.Choose("scn", 12))
		}

		return f
	case 8: // PType != 0
		st := byte(t.Choose("scn", 256))
		f := ctl(st, "ptype")
		f.H.PType = byte(1 + t.Choose("scn", 255))
		if t.Bias("scn", 1, 3) {
			f.Body = bytes.Repeat([]byte{0x55}, 1+t.Choose("scn", 12))
		}

		return f
	default: // control frame with a body
		sts := []byte{1, 2, 3, 4, 5, 6, 7, 9}
		f := ctl(sts[t.Choose("scn", len(sts))], "control.with.body")
		f.Body = bytes.Repeat([]byte{0x01}, 1+t.Choose("scn", 20))

		return f
	}
}

func genScenario(t *core.Tape, faulty bool) scenario {
	sc := scenario{SelectAt: -1, SecondAt: -1}
	sc.Active = t.Choose("scn", 2) == 1
	sc.Equip = t.Choose("scn", 2) == 1
	sc.Validate = t.Choose("scn", 3) == 2
	sc.Session = 0xFFFF
	if t.Bias("scn", 1, 3) {
		sc.Session = uint16(t.Choose("scn", 32768))
	}
	n := 1 + t.Choose("scn", 25)
	for i := 0; i < n; i++ {
		sc.Seq = append(sc.Seq, genFrame(t, sc.Session, i))
	}
	if sc.Active {
		if !t.Bias("scn", 1, 8) {
			sc.SelectAt = t.Choose("scn", n+1)
			if t.Bias("scn", 1, 4) {
				sc.SelStatus = []byte{1, 2, 3, 7, 255}[t.Choose("scn", 5)]
			}
		}
	} else {
		sc.PreSelect = !t.Bias("scn", 1, 4)
		if t.Bias("scn", 1, 3) {
			sc.SecondAt = t.Choose("scn", n+1)
		}
	}
	sc.T6 = 120 * time.Second
	if faulty {
		sc.Stall = []time.Duration{50 * time.Millisecond, time.Second, 5 * time.Second, 20 * time.Second}[t.Choose("scn", 4)]
		sc.Cap = []int{1, 8, 14, 100}[t.Choose("scn", 4)]
		sc.Queue = []int{0, 1, 2, 8}[t.Choose("scn", 4)]
		if (!sc.Active || sc.SelectAt == 0) && t.Choose("scn", 2) == 1 {
			// a short T6 is safe when the library's own Select.req (if any) is answered by the very first
			// frame of the stream (later ones may legitimately be read only after the stall: back-pressure)
			sc.T6 = []time.Duration{200 * time.Millisecond, 2 * time.Second}[t.Choose("scn", 2)]
		}
	}
	sc.AppPrimary = !sc.Active && sc.PreSelect && t.Bias("scn", 1, 4)
	sc.LiftBound = !sc.Active && sc.PreSelect && !sc.AppPrimary && t.Bias("scn", 1, 4)
	nc := t.Choose("scn", 7)
	for i := 0; i < nc; i++ {
		sc.Cuts = append(sc.Cuts, t.Choose("scn", 1<<16))
		sc.Gaps = append(sc.Gaps, time.Duration(t.Choose("scn", 4))*time.Millisecond)
	}

	return sc
}

// Build returns the scenario builder.
func Build(config string) core.BuildFunc {
	if config == "linktest" {
		return buildLinktest()
	}

	return func(w *core.World) *core.Scenario {
		h := &harness{w: w, expectS9: map[int][10]byte{}, optS9: map[int]bool{}}
		h.sc = genScenario(w.T, config == "faulty")
		sc := h.sc
		sess := sc.Session
		var wtoPtr *time.Duration
		if sc.LiftBound {
			d := 150 * time.Millisecond
			wtoPtr = &d
		}
		h.r = rig.New(w, rig.Opts{TraceTraffic: w.T.Choose("trace", 4) == 0, Active: sc.Active, Equip: sc.Equip, T6: sc.T6, T7: 300 * time.Second, T3: 120 * time.Second, QueueSize: sc.Queue,
			ValidateSession: sc.Validate, SessionID: &sess, T5: time.Second, BackoffInit: 200 * time.Millisecond, WriteTimeout: wtoPtr})
		r := h.r
		r.P.AutoSelectRsp = -1
		r.P.AutoLinktest = false
		r.P.AutoDeselectRsp = false
		r.N.ShortRead = func(avail int) int {
			if w.T.Bias("net", 1, 5) {
				return 1 + w.T.Choose("net", avail)
			}

			return avail
		}
		r.Open(hsms.OpenBackground)
		if sc.Active {
			r.P.OnFrame = func(c *refhsms.Conn, f refhsms.RxFrame) {
				if c.Gen == 1 && !h.sent && f.H.SType == refhsms.STSelectReq && f.H.PType == 0 {
					h.c = c
					h.sutSelSys = f.H.Sys
					h.transmit()
				}
			}
		} else {
			var try func()
			try = func() {
				if h.sent {
					return
				}
				if r.N.Listening(rig.Addr) {
					h.c = r.P.Connect(rig.Addr)
					if h.c != nil {
						h.transmit()

						return
					}
				}
				w.After(5*time.Millisecond, "peer-connect", try)
			}
			w.After(0, "peer-connect", try)
		}

		return &core.Scenario{
			Desc:    h.describe(),
			Horizon: 60 * time.Second,
			Done:    h.done,
			Final:   h.final,
			Cleanup: func() { r.Close() },
			Nontrivial: func() bool {
				return h.sent && len(h.expect) > 1
			},
		}
	}
}

func (h *harness) describe() map[string]any {
	sc := h.sc
	var classes []string
	for _, f := range sc.Seq {
		classes = append(classes, f.Class)
	}

	return map[string]any{"active": sc.Active, "equip": sc.Equip, "validate": sc.Validate, "session": sc.Session, "frames": classes,
		"selectAt": sc.SelectAt, "selStatus": sc.SelStatus, "preSelect": sc.PreSelect, "secondAt": sc.SecondAt, "cuts": len(sc.Cuts),
		"stall": sc.Stall.String(), "cap": sc.Cap, "queue": sc.Queue, "T6": sc.T6.String()}
}

// model runs the E37.1 responder model over the actual input list and fills the expectations.
func (h *harness) model(in []frame) {
	sc := h.sc
	sel := false
	openSel := sc.Active // the SUT's own Select.req is outstanding
	emit := func(hd refhsms.Header) { h.expect = append(h.expect, hd) }
	reject := func(f frame, b2, reason byte) {
		emit(refhsms.Header{Session: f.H.Session, B2: b2, B3: reason, SType: refhsms.STRejectReq, Sys: f.H.Sys})
	}
	h.endAt = -1
	for i, f := range in {
		switch {
		case f.H.PType != 0:
			reject(f, f.H.PType, 2)
		case !definedSType(f.H.SType):
			reject(f, f.H.SType, 1)
		case f.H.SType != 0 && len(f.Body) > 0:
			reject(f, f.H.SType, 1)
		case f.H.SType == refhsms.STData:
			if !sel {
				reject(f, 0, 4)

				break
			}
			isS9F1 := f.H.Stream() == 9 && f.H.Function() == 1
			if sc.Validate && f.H.Session != sc.Session && !isS9F1 {
				h.expectS9[len(h.expect)] = f.H.Pack()
				emit(refhsms.DataHeader(sc.Session, 9, 1, false, 0))

				break
			}
			h.expDeliv = append(h.expDeliv, f)
		case f.H.SType == refhsms.STSelectReq:
			st := byte(0)
			if sel {
				st = 1
			}
			sel = true
			emit(refhsms.Header{Session: f.H.Session, B3: st, SType: refhsms.STSelectRsp, Sys: f.H.Sys})
		case f.H.SType == refhsms.STDeselectReq:
			st := byte(1)
			if sel {
				st = 0
			}
			if sel {
				h.s9MayBeGated() // every S9F1 queued so far may be gated out by this deselect
			}
			sel = false
			emit(refhsms.Header{Session: f.H.Session, B3: st, SType: refhsms.STDeselectRsp, Sys: f.H.Sys})
		case f.H.SType == refhsms.STLinktestReq:
			emit(refhsms.Header{Session: 0xFFFF, SType: refhsms.STLinktestRsp, Sys: f.H.Sys})
		case f.H.SType == refhsms.STSelectRsp || f.H.SType == refhsms.STDeselectRsp || f.H.SType == refhsms.STLinktestRsp:
			if openSel && f.H.Sys == h.sutSelSys && f.H.SType == refhsms.STSelectRsp {
				openSel = false
				switch f.H.B3 {
				case 0:
					sel = true
				case 1:
				default:
					h.expEnd, h.endAt = true, i
				}

				break
			}
			reject(f, f.H.SType, 3)
		case f.H.SType == refhsms.STRejectReq:
			// nothing
		case f.H.SType == refhsms.STSeparateReq:
			if sel {
				h.expEnd, h.endAt = true, i
			}
		}
		if h.expEnd {
			h.s9MayBeGated() // the session ends: queued S9F1s meet the not-selected gate or the teardown
			break
		}
	}
	h.expSel = sel
}

func (h *harness) s9MayBeGated() {
	for idx := range h.expectS9 {
		h.optS9[idx] = true
	}
}

func definedSType(s byte) bool {
	switch s {
	case 0, 1, 2, 3, 4, 5, 6, 7, 9:
		return true
	}

	return false
}

// transmit sends the whole sequence (plus the barrier) as one byte stream cut at arbitrary points.
func (h *harness) transmit() {
	h.sent = true
	sc := h.sc
	if sc.LiftBound && !h.staged {
		h.staged = true
		w := h.w
		h.c.SendFrame(refhsms.Header{Session: sc.Session, SType: refhsms.STSelectReq, Sys: 0x5E1EC7}, nil)
		var wait func()
		n := 0
		wait = func() {
			n++
			if !h.r.Selected() || len(h.c.Rx) == 0 {
				if n > 400 {
					w.Fail("HARNESS", "never Selected")

					return
				}
				w.After(time.Millisecond, "stage-wait", wait)

				return
			}
			if err := h.r.C.UpdateConfigOptions(hsms.WithWriteTimeout(0)); err != nil {
				w.Fail("HARNESS", "UpdateConfigOptions(WithWriteTimeout(0)): %v", err)

				return
			}
			w.Probe("write_bound_lifted_at_run_time")
			w.After(400*time.Millisecond, "idle-after-lifting-the-bound", h.transmit)
		}
		w.After(time.Millisecond, "stage-wait", wait)

		return
	}
	if sc.AppPrimary && !h.staged {
		// stage 1: the leading Select.req alone; then the application's primary; then everything else
		h.staged = true
		w := h.w
		h.c.SendFrame(refhsms.Header{Session: sc.Session, SType: refhsms.STSelectReq, Sys: 0x5E1EC7}, nil)
		var wait func()
		n := 0
		wait = func() {
			n++
			if h.r.Selected() && !h.appSent {
				h.appSent = true
				w.Go("app-primary", func() {
					rep, err := h.r.C.SendDataMessage(context.Background(), 1, 1, true, secs2.A("app-primary"))
					h.appDone, h.appErr, h.appNilNil = true, err, rep == nil && err == nil
				})
			}
			for _, f := range h.c.Rx {
				if f.H.SType == refhsms.STData && f.H.PType == 0 && f.H.W() && f.H.Stream() == 1 && f.H.Function() == 1 {
					h.appSys, h.haveAppSys = f.H.Sys, true
				}
			}
			if h.haveAppSys || n > 400 {
				if !h.haveAppSys {
					w.Fail("HARNESS", "the application's primary never reached the peer")

					return
				}
				for i := range h.sc.Seq {
					if h.sc.Seq[i].Class == "orphan.rsp" && w.T.Choose("peer", 2) == 0 {
						h.sc.Seq[i].H.Sys = h.appSys
						w.Probe("control_response_with_system_bytes_of_open_data_transaction")
					}
				}
				h.transmit()

				return
			}
			w.After(time.Millisecond, "stage-wait", wait)
		}
		w.After(time.Millisecond, "stage-wait", wait)

		return
	}
	var in []frame
	if !sc.Active && sc.PreSelect {
		in = append(in, frame{H: refhsms.Header{Session: sc.Session, SType: refhsms.STSelectReq, Sys: 0x5E1EC7}, Class: "select.req"})
	}
	skipFirst := sc.AppPrimary || sc.LiftBound // (already on the wire: stage 1)
	for i, f := range sc.Seq {
		if sc.Active && sc.SelectAt == i {
			in = append(in, frame{H: refhsms.Header{Session: sc.Session, B3: sc.SelStatus, SType: refhsms.STSelectRsp, Sys: h.sutSelSys}, Class: "select.rsp"})
		}
		in = append(in, f)
	}
	if sc.Active && sc.SelectAt == len(sc.Seq) {
		in = append(in, frame{H: refhsms.Header{Session: sc.Session, B3: sc.SelStatus, SType: refhsms.STSelectRsp, Sys: h.sutSelSys}, Class: "select.rsp"})
	}
	h.model(in)
	if h.expEnd {
		in = in[:h.endAt+1]
	} else {
		in = append(in, frame{H: refhsms.Header{Session: 0xFFFF, SType: refhsms.STLinktestReq, Sys: barrierSys}, Class: "barrier"})
		h.expect = append(h.expect, refhsms.Header{Session: 0xFFFF, SType: refhsms.STLinktestRsp, Sys: barrierSys})
	}
	var stream []byte
	secondOff := -1
	for i, f := range in {
		if skipFirst && i == 0 {
			continue
		}
		if !sc.Active && sc.SecondAt >= 0 && secondOff < 0 && i >= sc.SecondAt+boolInt(sc.PreSelect) {
			secondOff = len(stream)
		}
		stream = append(stream, refhsms.Frame(f.H, f.Body)...)
	}
	var cuts []int
	for _, c := range sc.Cuts {
		if len(stream) > 1 {
			cuts = append(cuts, 1+c%(len(stream)-1))
		}
	}
	if secondOff > 0 && secondOff < len(stream) {
		cuts = append(cuts, secondOff)
	}
	cuts = sortUniq(cuts)
	gaps := []time.Duration{time.Millisecond}
	for i := range cuts {
		g := time.Millisecond
		if i < len(sc.Gaps) {
			g = sc.Gaps[i]
		}
		gaps = append(gaps, g)
	}
	h.sentAt = h.w.Now()
	if sc.Stall > 0 {
		h.w.Fault("peer-stops-reading")
		h.c.L.SetCap(sc.Cap)
		h.c.L.Stall(false, sc.Stall)
	}
	h.c.SendRawCut(stream, refhsms.Header{}, nil, true, cuts, gaps)
	if !sc.Active && sc.SecondAt >= 0 {
		// second TCP connection while the first session is live
		h.w.After(2*time.Millisecond, "second-connect", func() {
			h.secondTried = true
			h.secondAt = h.w.Now()
			h.c2 = h.r.P.Connect(rig.Addr)
			h.w.Fault("second-connection")
		})
	}
}

func boolInt(b bool) int {
	if b {
		return 1
	}

	return 0
}

func sortUniq(xs []int) []int {
	for i := 1; i < len(xs); i++ {
		for j := i; j > 0 && xs[j] < xs[j-1]; j-- {
			xs[j], xs[j-1] = xs[j-1], xs[j]
		}
	}
	var out []int
	for i, x := range xs {
		if i == 0 || x != xs[i-1] {
			out = append(out, x)
		}
	}

	return out
}

func (h *harness) outFrames() []refhsms.RxFrame {
	if h.c == nil {
		return nil
	}
	var out []refhsms.RxFrame
	for _, f := range h.c.Rx {
		if h.sc.Active && f.H.SType == refhsms.STSelectReq && f.H.Sys == h.sutSelSys {
			continue // the SUT's own Select.req
		}
		if h.haveAppSys && f.H.SType == refhsms.STData && f.H.PType == 0 && f.H.Sys == h.appSys && f.H.Stream() == 1 && f.H.Function() == 1 {
			continue // the application's own primary
		}
		out = append(out, f)
	}

	return out
}

func (h *harness) done() bool {
	if !h.sent || h.c == nil {
		return false
	}
	if !h.w.Idle() {
		return false
	}
	if h.expEnd {
		return !h.c.Alive() && h.c.L.ToLib().InFlight() == 0
	}
	if !h.sc.Active && h.sc.SecondAt >= 0 {
		// The second-connection verdict needs the library's close of that socket to have crossed the
		// simulated network (one latency after the library's Close): do not end the run at the very
		// instant of the accept. A socket the library keeps open is still reported, after 5 s.
		if !h.secondTried {
			return false
		}
		if h.c2 != nil && h.c2.Alive() && h.w.Now() < h.secondAt+5*time.Second {
			return false
		}
	}
	out := h.outFrames()

	return len(out) > 0 && out[len(out)-1].H.Sys == barrierSys && out[len(out)-1].H.SType == refhsms.STLinktestRsp
}

func (h *harness) final(reason string) {
	w := h.w
	if h.appNilNil {
		w.Fail("NIL_NIL", "the application's W-bit send returned neither a reply nor an error: a control response with its system bytes completed it")

		return
	}
	if !h.sent {
		w.Fail("HARNESS", "the peer never got to transmit (reason %s)", reason)

		return
	}
	out := h.outFrames()
	// exact comparison, FIFO (i indexes the expectation, j the frames actually sent)
	isS9F1 := func(g refhsms.RxFrame) bool {
		return g.H.SType == 0 && g.H.PType == 0 && g.H.Stream() == 9 && g.H.Function() == 1
	}
	i, j := 0, 0
	for i < len(h.expect) || j < len(out) {
		if i >= len(h.expect) {
			w.Fail("EXTRA_FRAME", "the library sent an unexpected frame #%d: %s (expected %d frames)%s", j, out[j].H, len(h.expect), h.ctx(i))

			return
		}
		if off, isS9 := h.expectS9[i]; isS9 && h.optS9[i] && (j >= len(out) || !isS9F1(out[j]) ||
			!bytes.Equal(out[j].Body, append([]byte{0x21, 0x0A}, off[:]...))) {
			// not this S9F1 (a later one, or another frame): the optional one was gated out. A frame that
			// matches nothing still fails below against the next mandatory expectation or as EXTRA_FRAME.
			w.Probe("s9f1_gated_out_by_later_session_exit")
			i++

			continue
		}
		if j >= len(out) {
			if h.expEnd && !h.c.Alive() {
				// The sequence ends the session (peer Separate / refused select). Responses that were
				// still queued for sending when the library tore the connection down are discarded, not
				// flushed (C09); which suffix that is depends on the schedule. A strict prefix is legal.
				w.Probe("responses_discarded_at_session_end")

				break
			}
			w.Fail("MISSING_FRAME", "expected frame #%d %s was never sent (got %d frames, run ended: %s)%s", i, h.expect[i], len(out), reason, h.ctx(i))

			return
		}
		exp, got := h.expect[i], out[j]
		if off, isS9 := h.expectS9[i]; isS9 {
			wantBody := append([]byte{0x21, 0x0A}, off[:]...)
			if !isS9F1(got) || got.H.W() || got.H.Session != exp.Session || !bytes.Equal(got.Body, wantBody) {
				w.Fail("WRONG_FRAME", "frame #%d: expected S9F1 carrying header %x from session %d, got %s body %x%s", j, off, exp.Session, got.H, got.Body, h.ctx(i))

				return
			}
			i++
			j++

			continue
		}
		if got.H != exp || len(got.Body) != 0 {
			w.Fail("WRONG_FRAME", "frame #%d: expected %s, got %s (body %d bytes)%s", j, exp, got.H, len(got.Body), h.ctx(i))

			return
		}
		i++
		j++
	}
	// deliveries
	nh := 2
	for hi := 0; hi < nh; hi++ {
		var got []rig.Delivery
		for _, d := range h.r.Deliveries {
			if d.Handler == hi {
				got = append(got, d)
			}
		}
		if len(got) != len(h.expDeliv) {
			w.Fail("DELIVERY", "handler %d received %d data messages, the model says %d", hi, len(got), len(h.expDeliv))

			return
		}
		for i, d := range got {
			e := h.expDeliv[i]
			eh := e.H.Pack()
			if d.Hdr != eh || !bytes.Equal(d.Body, e.Body) {
				w.Fail("DELIVERY", "handler %d message %d: got header %x body %x, expected %x body %x", hi, i, d.Hdr, d.Body, eh, e.Body)

				return
			}
		}
	}
	if h.expEnd {
		if h.c.Alive() {
			w.Fail("NO_DISCONNECT", "the sequence ends the session (Separate.req while selected / select refused) but the library kept the connection open")

			return
		}
		if h.c.RST {
			w.Fail("HARNESS", "unexpected reset")
		}

		return
	}
	if !h.c.Alive() {
		w.Fail("DISCONNECT", "the library closed the connection although no frame of the sequence calls for it (eof=%v rst=%v at %v)", h.c.EOF, h.c.RST, h.c.EOFAt)

		return
	}
	st := h.r.C.State()
	want := hsms.NotSelectedState
	if h.expSel {
		want = hsms.SelectedState
	}
	if st != want {
		w.Fail("STATE", "State() is %v at the barrier, the responder model says %v", st, want)

		return
	}
	if h.secondTried {
		if h.c2 == nil {
			w.Fail("HARNESS", "second connection was refused at TCP level (no listener)")

			return
		}
		if h.c2.Alive() || len(h.c2.Rx) != 0 {
			w.Fail("SECOND_CONN", "second TCP connection to a passive endpoint with a live session: alive=%v frames=%d (must be closed at once, nothing sent)", h.c2.Alive(), len(h.c2.Rx))

			return
		}
		w.Probe("second_connection_refused")
	}
}

func (h *harness) ctx(i int) string {
	return fmt.Sprintf("\n  scenario: %v", h.describe())
}

var _ = simnet.New
