package c08

// Configuration "linktest": the control transactions the LIBRARY opens. The connection runs its own
// auto-linktest (period shorter, equal or longer than T6); the scripted peer answers each
// Linktest.req after a chosen delay — at once, well inside T6, just inside T6, just after T6, or
// never — and interleaves its own Linktest.req and orphan control responses. By E37 the library's
// Linktest.req is an open transaction for exactly T6: an answer inside T6 closes it and draws
// nothing; an answer after T6 (or for a probe that never existed) is a response with no open
// transaction and draws Reject.req reason 3 echoing its header. The frames the library sends (other
// than its own probes) must be exactly those, in the order the peer's frames arrived.

import (
	"fmt"
	"time"

	"github.com/arloliu/go-secs/v2/hsms"
	"github.com/arloliu/go-secs/v2/verifsim/core"
	"github.com/arloliu/go-secs/v2/verifsim/refhsms"
	"github.com/arloliu/go-secs/v2/verifsim/rig"
)

type ltScn struct {
	Active   bool
	Equip    bool
	Suppress bool
	Interval time.Duration
	T6       time.Duration
	Plan     []int // per probe: 0 at once, 1 T6/4, 2 T6/2, 3 T6-15ms, 4 T6+15ms, 5 never
	Extra    []int // per probe: 0 none, 1 peer Linktest.req, 2 orphan Linktest.rsp, 3 orphan Select.rsp, 4 a data secondary with the probe's system bytes
}

var ltPlanNames = []string{"at-once", "T6/4", "T6/2", "T6-15ms", "T6+15ms", "never"}

type ltHarness struct {
	w       *core.World
	r       *rig.Rig
	sc      ltScn
	c       *refhsms.Conn
	probes  int
	seen    int // frames of c.Rx already looked at
	expect  []refhsms.Header
	why     []string
	closed  bool // the script is over: barrier sent
	extraN  uint32
	pending int
}

func buildLinktest() core.BuildFunc {
	return func(w *core.World) *core.Scenario {
		t := w.T
		h := &ltHarness{w: w}
		sc := ltScn{Active: t.Choose("scn", 2) == 1, Equip: t.Choose("scn", 2) == 1, Suppress: t.Choose("scn", 2) == 1}
		sc.Interval = []time.Duration{30 * time.Millisecond, 100 * time.Millisecond, 400 * time.Millisecond}[t.Choose("scn", 3)]
		sc.T6 = []time.Duration{60 * time.Millisecond, 200 * time.Millisecond, 400 * time.Millisecond}[t.Choose("scn", 3)]
		n := 3 + t.Choose("scn", 6)
		for i := 0; i < n; i++ {
			sc.Plan = append(sc.Plan, t.Weighted("scn", 3, 2, 3, 3, 2, 1))
			sc.Extra = append(sc.Extra, t.Weighted("scn", 4, 2, 2, 1, 2))
		}
		h.sc = sc
		supp := sc.Suppress
		h.r = rig.New(w, rig.Opts{TraceTraffic: t.Choose("trace", 4) == 0, Active: sc.Active, Equip: sc.Equip, T6: sc.T6, T7: 300 * time.Second, T3: 120 * time.Second,
			Linktest: sc.Interval, LinkThreshold: 1000, Suppress: &supp, T5: time.Second, BackoffInit: 200 * time.Millisecond})
		r := h.r
		r.P.AutoSelectRsp = 0
		r.P.AutoLinktest = false
		r.P.AutoDeselectRsp = false
		r.N.ShortRead = func(avail int) int {
			if w.T.Bias("net", 1, 5) {
				return 1 + w.T.Choose("net", avail)
			}

			return avail
		}
		r.Open(hsms.OpenBackground)
		if !sc.Active {
			var try func()
			try = func() {
				if h.c != nil {
					return
				}
				if r.N.Listening(rig.Addr) {
					if c := r.P.Connect(rig.Addr); c != nil {
						h.c = c
						c.SelectReq()

						return
					}
				}
				w.After(5*time.Millisecond, "peer-connect", try)
			}
			w.After(0, "peer-connect", try)
		}
		w.AddMonitor(h.poll)
		var plan []string
		for _, p := range sc.Plan {
			plan = append(plan, ltPlanNames[p])
		}

		return &core.Scenario{
			Desc: map[string]any{"active": sc.Active, "equip": sc.Equip, "suppression": sc.Suppress, "interval": sc.Interval.String(), "T6": sc.T6.String(),
				"answers": plan, "extras": sc.Extra},
			Horizon:    60 * time.Second,
			Done:       func() bool { return h.closed && w.Idle() && (h.hasBarrier() || !h.c.Alive()) },
			Final:      h.final,
			Cleanup:    func() { r.Close() },
			Nontrivial: func() bool { return h.closed && h.probes >= 3 },
		}
	}
}

func (h *ltHarness) hasBarrier() bool {
	for _, f := range h.c.Rx {
		if f.H.SType == refhsms.STLinktestRsp && f.H.Sys == barrierSys {
			return true
		}
	}

	return false
}

func (h *ltHarness) send(hd refhsms.Header, expect *refhsms.Header, why string) {
	if !h.c.Alive() {
		return
	}
	h.c.SendFrame(hd, nil)
	if expect != nil {
		h.expect = append(h.expect, *expect)
		h.why = append(h.why, why)
	}
}

func (h *ltHarness) send2(hd refhsms.Header, body []byte) {
	if h.c.Alive() {
		h.c.SendFrame(hd, body)
	}
}

func (h *ltHarness) poll() {
	w, sc := h.w, h.sc
	if h.c == nil {
		h.c = h.r.P.Last()
	}
	if h.c == nil {
		return
	}
	for ; h.seen < len(h.c.Rx); h.seen++ {
		f := h.c.Rx[h.seen]
		if f.H.SType != refhsms.STLinktestReq || f.H.PType != 0 || h.closed {
			continue
		}
		k := h.probes
		h.probes++
		if k >= len(sc.Plan) {
			// the script is over: in-time answers until nothing of it is still scheduled, then the barrier
			h.send(refhsms.Header{Session: 0xFFFF, SType: refhsms.STLinktestRsp, Sys: f.H.Sys}, nil, "")
			if h.pending > 0 {
				continue
			}
			h.closed = true
			h.send(refhsms.Header{Session: 0xFFFF, SType: refhsms.STLinktestReq, Sys: barrierSys},
				&refhsms.Header{Session: 0xFFFF, SType: refhsms.STLinktestRsp, Sys: barrierSys}, "barrier")

			continue
		}
		if sc.Extra[k] == 4 {
			// a data secondary (even function, no W-bit) that happens to carry the system bytes of the open
			// Linktest transaction: it is data for the handlers; the transaction stays open for its answer
			w.Probe("data_secondary_with_system_bytes_of_open_control_transaction")
			h.send2(refhsms.DataHeader(0xFFFF, 1, 2, false, f.H.Sys), refhsms.ASCII("twin"))
		}
		rsp := refhsms.Header{Session: 0xFFFF, SType: refhsms.STLinktestRsp, Sys: f.H.Sys}
		base := f.WrittenAt - w.Now() // (<= 0) delays count from the instant the library wrote the probe
		var d time.Duration
		late := false
		switch sc.Plan[k] {
		case 0:
			d = 0
		case 1:
			d = sc.T6 / 4
		case 2:
			d = sc.T6 / 2
		case 3:
			d = sc.T6 - 15*time.Millisecond
		case 4:
			d, late = sc.T6+15*time.Millisecond, true
			w.Fault("linktest-answer-after-T6")
		default:
			d = -1
			w.Fault("linktest-never-answered")
		}
		if d > sc.Interval && !late {
			w.Probe("answer_inside_T6_but_later_than_the_period")
		}
		if d >= 0 {
			at := base + d
			if at < 0 {
				at = 0
			}
			var exp *refhsms.Header
			why := ""
			if late {
				exp = &refhsms.Header{Session: 0xFFFF, B2: refhsms.STLinktestRsp, B3: 3, SType: refhsms.STRejectReq, Sys: f.H.Sys}
				why = fmt.Sprintf("Linktest.rsp for probe #%d sent %v after the probe was written (T6 %v): no open transaction", k, d, sc.T6)
			}
			h.pending++
			w.After(at, "linktest-answer", func() { h.pending--; h.send(rsp, exp, why) })
		}
		// an extra frame somewhere inside this probe's T6 window
		if x := sc.Extra[k]; x != 0 && x != 4 {
			h.extraN++
			sys := 0x40000000 + h.extraN
			at := time.Duration(w.T.Choose("peer", int(sc.T6/time.Millisecond))) * time.Millisecond
			h.pending++
			w.After(at, "extra-frame", func() {
				h.pending--
				switch x {
				case 1:
					h.send(refhsms.Header{Session: 0xFFFF, SType: refhsms.STLinktestReq, Sys: sys},
						&refhsms.Header{Session: 0xFFFF, SType: refhsms.STLinktestRsp, Sys: sys}, "peer Linktest.req")
				case 2:
					h.send(refhsms.Header{Session: 0xFFFF, SType: refhsms.STLinktestRsp, Sys: sys},
						&refhsms.Header{Session: 0xFFFF, B2: refhsms.STLinktestRsp, B3: 3, SType: refhsms.STRejectReq, Sys: sys}, "orphan Linktest.rsp")
				default:
					h.send(refhsms.Header{Session: 0xFFFF, SType: refhsms.STSelectRsp, Sys: sys},
						&refhsms.Header{Session: 0xFFFF, B2: refhsms.STSelectRsp, B3: 3, SType: refhsms.STRejectReq, Sys: sys}, "orphan Select.rsp")
				}
			})
		}
	}
}

func (h *ltHarness) final(reason string) {
	w := h.w
	ctx := fmt.Sprintf("\n  scenario: interval %v, T6 %v, suppression %v, active %v; %d probes seen", h.sc.Interval, h.sc.T6, h.sc.Suppress, h.sc.Active, h.probes)
	if h.c == nil || !h.closed {
		if h.c != nil && !h.c.Alive() {
			w.Fail("DISCONNECT", "the library closed the connection at %v although the failure threshold (1000) was never reached%s", h.c.EOFAt, ctx)

			return
		}
		w.Fail("NO_PROBES", "the auto-linktest stopped: %d probes reached the peer by %v, the script needs %d (run ended: %s)%s", h.probes, w.Now(), len(h.sc.Plan)+1, reason, ctx)

		return
	}
	var out []refhsms.RxFrame
	for _, f := range h.c.Rx {
		if f.H.SType == refhsms.STLinktestReq || f.H.SType == refhsms.STSelectReq || (f.H.SType == refhsms.STSelectRsp && !h.sc.Active) {
			continue
		}
		out = append(out, f)
	}
	for i := 0; i < len(h.expect) || i < len(out); i++ {
		if i >= len(h.expect) {
			w.Fail("EXTRA_FRAME", "the library sent an unexpected frame #%d: %s (expected %d frames) — a Linktest.rsp that arrives inside T6 of its Linktest.req has an open transaction and draws nothing%s", i, out[i].H, len(h.expect), ctx)

			return
		}
		if i >= len(out) {
			w.Fail("MISSING_FRAME", "expected frame #%d %s (%s) was never sent (got %d frames)%s", i, h.expect[i], h.why[i], len(out), ctx)

			return
		}
		if out[i].H != h.expect[i] || len(out[i].Body) != 0 {
			w.Fail("WRONG_FRAME", "frame #%d: expected %s (%s), got %s%s", i, h.expect[i], h.why[i], out[i].H, ctx)

			return
		}
	}
	if !h.c.Alive() {
		w.Fail("DISCONNECT", "the library closed the connection at %v although the failure threshold (1000) was never reached%s", h.c.EOFAt, ctx)

		return
	}
	if st := h.r.C.State(); st != hsms.SelectedState {
		w.Fail("STATE", "State() is %v at the barrier", st)

		return
	}
	w.Probe("library_opened_transactions_closed_exactly")
}
