// Package c19 decides property C19: with automatic linktest enabled, a peer that stops answering
// while nothing else is received and no reply is outstanding is disconnected after exactly the
// configured number of consecutive probe timeouts; a peer that answers probes, or shows life in the
// ways the suppression rules define, is never disconnected by the linktest; with suppression on no
// probe is sent while traffic flowed within the last interval or a reply is outstanding; with it
// off every interval is probed and every timeout counts.
package c19

import (
	"context"
	"fmt"
	"time"

	"github.com/arloliu/go-secs/v2/hsms"
	"github.com/arloliu/go-secs/v2/hsmsss"
	"github.com/arloliu/go-secs/v2/secs2"
	"github.com/arloliu/go-secs/v2/verifsim/core"
	"github.com/arloliu/go-secs/v2/verifsim/refhsms"
	"github.com/arloliu/go-secs/v2/verifsim/rig"
	"github.com/arloliu/go-secs/v2/verifsim/simhook"
)

// peer liveness scripts
const (
	sSilent = iota
	sAnswers
	sSlowButAlive
	sOutstanding
	sIntermittent
	sDarkWithLocalSends
	sLateLife
	nScripts
)

var lifeNames = []string{"data frame inside the T6 window", "Linktest.rsp arriving after T6 (late answer)", "Linktest.req of the peer inside the T6 window", "undefined SType frame inside the T6 window"}

var scriptNames = []string{"silent", "answers-probes", "slow-but-alive", "reply-outstanding", "intermittent", "dark-peer-local-sends", "late-sign-of-life-at-the-threshold"}

type scenario struct {
	Script   int
	Active   bool
	Equip    bool
	I, T6    time.Duration
	N        int
	Supp     bool
	SilentAt time.Duration
	Dur      time.Duration
	RspDelay time.Duration
	// Prologue: a generation BEFORE the one the script runs on — 1: the peer never answers a probe and
	// is dropped by the linktest; 2: the peer stops reading, a W-bit application send fails at the
	// write and the link drops. Whatever the previous generation left behind (a failure run, a gauge)
	// must not change how the new session is probed.
	Prologue int
	Life     int             // slow-but-alive: what the sign of life is (lifeNames)
	Reselect bool            // silent scripts: the peer deselects and re-selects the session on the same connection just before it goes dark
	Traffic  []time.Duration // app W-bit sends (prompt replies)
	PeerData []time.Duration // unsolicited primaries from the peer
	// Validate: 0 off; 1 session-id validation on from construction; 2 switched on at run time once
	// Selected. The device session id is then Sess (not 0xFFFF) while every Linktest frame carries
	// 0xFFFF, as E37 prescribes: validation concerns data messages and must not touch the probes.
	Validate int
	Sess     uint16
	// Redial (passive library end): while the session lives, something keeps dialling the port every
	// third of the linktest interval (a restarted host, a monitoring probe); every such connection is
	// refused (closed at once) and must leave the live session's probing untouched
	Redial bool
}

type probe struct {
	at       time.Duration // when the library wrote the Linktest.req
	answered bool
	rspAt    time.Duration // when the answer reached the library (estimate until it is delivered)
	rspTx    *refhsms.TxFrame
}

type act struct {
	at time.Duration
}

type harness struct {
	w  *core.World
	r  *rig.Rig
	sc scenario

	c              *refhsms.Conn
	selAt          time.Duration
	probes         []*probe
	activity       []time.Duration // instants a complete frame crossed the link in either direction (library's view)
	outFrom, outTo time.Duration   // the long outstanding W-bit transaction (script sOutstanding)
	started        bool
	stop           bool
	endAt          time.Duration
	seenProbes     int
	sendsDone      bool
	localSends     []time.Duration
	reselAt        time.Duration // arrival of the peer's second Select.req at the library (0 = none)
	usedLn         int
	lateArmed      bool
	prologueOn     bool // the prologue generation is running
	prologueDone   bool
}

func genScenario(t *core.Tape) scenario {
	sc := scenario{}
	sc.Script = t.Choose("scn", nScripts)
	sc.Active = t.Choose("scn", 2) == 1
	sc.Equip = t.Choose("scn", 2) == 1
	sc.I = []time.Duration{100 * time.Millisecond, 250 * time.Millisecond, 400 * time.Millisecond}[t.Choose("scn", 3)]
	sc.T6 = []time.Duration{50 * time.Millisecond, 150 * time.Millisecond, 300 * time.Millisecond}[t.Choose("scn", 3)]
	sc.N = 1 + t.Choose("scn", 4)
	sc.Supp = t.Choose("scn", 2) == 0
	if sc.Script == sIntermittent && sc.N < 2 {
		sc.N = 2
	}
	if sc.Script == sLateLife {
		sc.Supp = true
	}
	sc.Prologue = t.Weighted("scn", 4, 1, 1)
	sc.Redial = !sc.Active && t.Choose("scn", 3) == 0
	sc.Sess = 0xFFFF
	if sc.Validate = t.Weighted("scn", 3, 1, 1); sc.Validate != 0 {
		sc.Sess = uint16(1 + t.Choose("scn", 32766))
	}
	sc.Life = t.Choose("scn", len(lifeNames))
	sc.Reselect = t.Choose("scn", 3) == 2
	sc.SilentAt = time.Duration(500+t.Choose("scn", 2000))*time.Millisecond + 333*time.Microsecond
	sc.Dur = time.Duration(3000+t.Choose("scn", 3000)) * time.Millisecond
	sc.RspDelay = time.Duration(t.Choose("scn", int(sc.T6/time.Millisecond)-4)) * time.Millisecond
	nt := t.Choose("scn", 8)
	for i := 0; i < nt; i++ {
		sc.Traffic = append(sc.Traffic, time.Duration(t.Choose("scn", 5000))*time.Millisecond+137*time.Microsecond)
	}
	np := t.Choose("scn", 6)
	for i := 0; i < np; i++ {
		sc.PeerData = append(sc.PeerData, time.Duration(t.Choose("scn", 5000))*time.Millisecond+571*time.Microsecond)
	}

	return sc
}

// Build returns the scenario builder.
func Build(config string) core.BuildFunc {
	if config == "pure" {
		return buildPure()
	}

	return func(w *core.World) *core.Scenario {
		h := &harness{w: w, outFrom: -1, outTo: -1}
		h.sc = genScenario(w.T)
		sc := h.sc
		supp := sc.Supp
		backoff := 10 * time.Second
		wto := 30 * time.Second
		if sc.Prologue != 0 {
			backoff = 30 * time.Millisecond
			wto = 120 * time.Millisecond
		}
		h.r = rig.New(w, rig.Opts{Active: sc.Active, Equip: sc.Equip, T3: 20 * time.Second, T5: time.Second, T6: sc.T6, T7: 5 * time.Second, T8: 5 * time.Second,
			SessionID: &sc.Sess, ValidateSession: sc.Validate == 1, Linktest: sc.I, LinkThreshold: sc.N, Suppress: &supp, BackoffInit: backoff, BackoffMult: 1, CloseTimeout: time.Second, WriteTimeout: &wto})
		r := h.r
		r.P.AutoSelectRsp = 0
		r.P.AutoLinktest = false
		r.P.OnOpen = func(c *refhsms.Conn) {
			if h.c == nil {
				h.c = c
				if !sc.Active {
					c.SelectReq()
				}
			}
		}
		r.P.OnFrame = h.onFrame
		w.AddMonitor(h.monitor)
		r.Open(hsms.OpenBackground)
		if !sc.Active {
			var try func()
			try = func() {
				if h.stop {
					return
				}
				if h.c == nil && r.N.Listening(rig.Addr) && len(r.N.Listeners) > h.usedLn {
					h.usedLn = len(r.N.Listeners)
					r.P.Connect(rig.Addr)
				}
				if h.c != nil && (sc.Prologue == 0 || h.prologueDone) {
					return
				}
				w.After(2*time.Millisecond, "peer-connect", try)
			}
			w.After(0, "peer-connect", try)
		}

		return &core.Scenario{
			Desc:    h.describe(),
			Horizon: 60 * time.Second,
			Done: func() bool {
				return h.started && h.c != nil && (h.c.L.A.ClosedAt >= 0 && w.Now() > h.c.L.A.ClosedAt+20*time.Millisecond || w.Now() >= h.endAt) && w.Idle()
			},
			Final:      h.final,
			Cleanup:    func() { h.stop = true; r.Close() },
			Nontrivial: func() bool { return h.started && len(h.probes) > 0 },
		}
	}
}

func (h *harness) describe() map[string]any {
	sc := h.sc

	return map[string]any{"script": scriptNames[sc.Script], "active": sc.Active, "equip": sc.Equip, "interval": sc.I.String(), "T6": sc.T6.String(), "threshold": sc.N, "suppression": sc.Supp, "prologue": []string{"none", "previous generation dropped by the linktest", "previous generation lost to a failed W-bit write"}[sc.Prologue], "life": lifeNames[sc.Life], "reselect": sc.Reselect,
		"silentAt": sc.SilentAt.String(), "duration": sc.Dur.String(), "rspDelay": sc.RspDelay.String(), "sessionValidation": []string{"off", "on", "switched on at run time"}[sc.Validate], "session": sc.Sess, "redialWhileLive": sc.Redial, "appSends": len(sc.Traffic), "peerData": len(sc.PeerData)}
}

// monitor starts the script once the session is Selected.
func (h *harness) monitor() {
	h.w.TrackRoles([][2]string{{"select@hsmsss/transport_procedures.go", "linktest"}})
	if h.sc.Prologue != 0 && !h.prologueDone {
		h.prologue()

		return
	}
	if h.started || h.c == nil || !h.r.Selected() || h.c.L.A.ClosedAt >= 0 {
		return
	}
	w, sc := h.w, h.sc
	h.started = true
	if sc.Validate == 2 {
		if err := h.r.C.UpdateConfigOptions(hsms.WithSessionIDValidation(true)); err != nil {
			w.Fail("HARNESS", "UpdateConfigOptions(WithSessionIDValidation): %v", err)

			return
		}
		w.Probe("session_validation_switched_on_at_run_time")
	}
	h.selAt = w.Now()
	if sc.Redial {
		var redial func()
		redial = func() {
			if h.stop || h.c == nil || h.c.L.A.ClosedAt >= 0 || w.Now() >= h.endAt {
				return
			}
			if h.r.N.Listening(rig.Addr) {
				if c2 := h.r.P.Connect(rig.Addr); c2 != nil {
					w.Fault("second-connection-while-the-session-lives")
				}
			}
			w.After(sc.I/3, "redial", redial)
		}
		w.After(sc.I/3, "redial", redial)
	}
	h.endAt = h.selAt + sc.Dur
	trafficUntil := h.endAt
	switch sc.Script {
	case sSilent, sDarkWithLocalSends:
		trafficUntil = h.selAt + sc.SilentAt - 2*sc.I - sc.T6
		h.endAt = h.selAt + sc.SilentAt + time.Duration(sc.N+3)*(2*sc.I+sc.T6) + 2*time.Second
	case sSlowButAlive:
		trafficUntil = h.selAt // no application traffic
		h.endAt = h.selAt + time.Duration(sc.N+4)*(2*sc.I+2*sc.T6)
	case sIntermittent:
		trafficUntil = h.selAt
		h.endAt = h.selAt + time.Duration(3*sc.N+4)*(sc.I+sc.T6) + 2*time.Second
	case sOutstanding:
		trafficUntil = h.selAt
		h.endAt = h.selAt + 6*sc.I + 4*sc.T6 + time.Second
	case sLateLife:
		trafficUntil = h.selAt
		h.endAt = h.selAt + time.Duration(2*sc.N+4)*(2*sc.I+sc.T6) + 2*time.Second
	}
	// application W-bit sends (answered at once) and peer primaries, only before trafficUntil
	for _, at := range sc.Traffic {
		if h.selAt+at < trafficUntil {
			w.After(at, "app-send", func() {
				w.Go("app", func() {
					ctx, cancel := context.WithTimeout(context.Background(), 2*time.Second)
					_, _ = h.r.C.SendDataMessage(ctx, 1, 1, true, secs2.A("x"))
					cancel()
				})
			})
		}
	}
	for _, at := range sc.PeerData {
		if h.selAt+at < trafficUntil {
			w.After(at, "peer-data", func() {
				if h.c.Alive() {
					h.c.SendFrame(refhsms.DataHeader(h.sc.Sess, 6, 11, false, h.r.P.NextSys()), refhsms.ASCII("evt"))
				}
			})
		}
	}
	if sc.Reselect && (sc.Script == sSilent || sc.Script == sDarkWithLocalSends) {
		// the peer ends the session and selects it again on the same connection, then goes dark: the
		// new session must be probed like the first one
		w.After(sc.SilentAt-sc.I/2, "peer-deselect", func() {
			if h.c.Alive() {
				h.c.SendFrame(refhsms.Header{Session: 0xFFFF, SType: refhsms.STDeselectReq, Sys: h.r.P.NextSys()}, nil)
			}
		})
		w.After(sc.SilentAt-sc.I/2+5*time.Millisecond, "peer-reselect", func() {
			if h.c.Alive() {
				h.c.SendFrame(refhsms.Header{Session: 0xFFFF, SType: refhsms.STSelectReq, Sys: h.r.P.NextSys()}, nil)
				h.reselAt = w.Now() + time.Millisecond
				w.Probe("session_reselected_on_same_connection")
			}
		})
	}
	switch sc.Script {
	case sOutstanding:
		// one W-bit transaction whose reply the peer holds for 3 intervals + T6
		w.After(sc.I/2+91*time.Microsecond, "app-long-send", func() {
			w.Go("app-long", func() {
				_, _ = h.r.C.SendDataMessage(context.Background(), 2, 1, true, secs2.A("long"))
			})
		})
	case sDarkWithLocalSends:
		// fire-and-forget sends of our own while the peer is dark: one per probe cycle, spaced wider
		// than the interval (closer together they would, by rule 1, suppress probing altogether, which
		// is the documented behaviour and not a defect)
		period := sc.I + sc.T6 + 3*time.Millisecond + 53*time.Microsecond
		var tick func()
		tick = func() {
			if h.stop || h.c.L.A.ClosedAt >= 0 || w.Now() > h.endAt {
				return
			}
			w.Go("app-ff", func() {
				if err := h.r.C.SendDataMessageAsync(context.Background(), 1, 3, false, secs2.A("ff")); err == nil {
					h.localSends = append(h.localSends, w.Now())
				}
			})
			w.After(period, "local-send", tick)
		}
		w.After(sc.SilentAt+sc.I/3, "local-send", tick)
	}
}

// prologue drives the generation before the scripted one and hands over when the library has
// dropped it.
func (h *harness) prologue() {
	w, sc := h.w, h.sc
	if h.c == nil {
		return
	}
	if !h.prologueOn {
		if !h.r.Selected() {
			return
		}
		h.prologueOn = true
		if sc.Prologue == 2 {
			c := h.c
			w.After(20*time.Millisecond, "prologue-wedge", func() {
				if !c.Alive() {
					return
				}
				w.Fault("sndfull")
				c.L.SetCap(8)
				c.L.Stall(false, 0)
				w.Go("app-prologue", func() {
					_, err := h.r.C.SendDataMessage(context.Background(), 1, 1, true, secs2.A("prologue"))
					w.Logf("prologue send err=%v", err)
				})
			})
		} else {
			w.Fault("prologue-silent-peer")
		}

		return
	}
	if h.c.L.A.ClosedAt >= 0 {
		// the library has dropped the prologue generation: the scripted one is the next connection
		w.Probe(fmt.Sprintf("prologue%d_generation_dropped", sc.Prologue))
		h.c.L.RST()
		h.c = nil
		h.probes = nil
		h.prologueDone = true
	}
}

func (h *harness) dark() bool {
	sc := h.sc
	switch sc.Script {
	case sSilent, sDarkWithLocalSends:
		return h.w.Now() >= h.selAt+sc.SilentAt
	}

	return false
}

func (h *harness) onFrame(c *refhsms.Conn, f refhsms.RxFrame) {
	if c != h.c || f.H.PType != 0 {
		return
	}
	w, sc := h.w, h.sc
	if sc.Prologue != 0 && !h.prologueDone {
		if f.H.SType == refhsms.STLinktestReq && sc.Prologue == 2 {
			c.SendFrame(refhsms.Header{Session: 0xFFFF, SType: refhsms.STLinktestRsp, Sys: f.H.Sys}, nil)
		}

		return
	}
	switch f.H.SType {
	case refhsms.STLinktestReq:
		p := &probe{at: f.WrittenAt}
		h.probes = append(h.probes, p)
		k := len(h.probes)
		answer := func(d time.Duration) {
			p.answered = true
			p.rspAt = w.Now() + d + time.Millisecond
			w.After(d, "linktest-rsp", func() {
				if c.Alive() {
					c.SendFrame(refhsms.Header{Session: 0xFFFF, SType: refhsms.STLinktestRsp, Sys: f.H.Sys}, nil)
					p.rspTx = c.Tx[len(c.Tx)-1] // (the line delivers one segment per latency: the real arrival may be later than the estimate)
				}
			})
		}
		switch sc.Script {
		case sSilent, sDarkWithLocalSends:
			// (an answer that would leave after the peer has gone dark is not sent at all)
			if !h.dark() && w.Now()+sc.RspDelay < h.selAt+sc.SilentAt {
				answer(sc.RspDelay)
			}
		case sAnswers, sOutstanding:
			answer(sc.RspDelay)
		case sSlowButAlive:
			// never answers the probe in time, but shows life: half way through its T6 window, or (late
			// answer) a quarter of T6 after the timeout
			at := sc.T6 / 2
			if sc.Life == 1 {
				at = sc.T6 + sc.T6/4
			}
			w.After(at, "life-sign", func() {
				if !c.Alive() {
					return
				}
				switch sc.Life {
				case 0:
					c.SendFrame(refhsms.DataHeader(h.sc.Sess, 6, 11, false, h.r.P.NextSys()), refhsms.ASCII("alive"))
				case 1:
					c.SendFrame(refhsms.Header{Session: 0xFFFF, SType: refhsms.STLinktestRsp, Sys: f.H.Sys}, nil)
				case 2:
					c.SendFrame(refhsms.Header{Session: 0xFFFF, SType: refhsms.STLinktestReq, Sys: h.r.P.NextSys()}, nil)
				default:
					c.SendFrame(refhsms.Header{Session: 0xFFFF, SType: 8, Sys: h.r.P.NextSys()}, nil)
				}
			})
		case sLateLife:
			// never answers. When the threshold-th consecutive probe is about to time out, the linktest
			// goroutine is withheld for 2 ms at one of its next atomic steps (walked by the tape through
			// the failure accounting and the pre-disconnect re-check) and one data frame arrives 1 ms
			// after the timeout: the library either drops the link at that timeout or credits the sign of
			// life — and then, the peer staying silent, drops it after the threshold-th further timeout
			if k == sc.N && !h.lateArmed {
				h.lateArmed = true
				exp := p.at + sc.T6 - w.Now()
				skip := w.T.Choose("peer", 24)
				w.After(exp-time.Millisecond, "arm-linktest-hold", func() {
					w.HoldNth = append(w.HoldNth, &core.NthHold{Prefix: "atomic", Skip: skip, D: 2 * time.Millisecond, Label: "linktest",
						Filter: func(g *simhook.G) bool { return w.Roles[g.ID] == "linktest" }})
				})
				w.After(exp, "late-sign-of-life", func() {
					if c.Alive() {
						w.Fault("sign-of-life-right-after-the-threshold-timeout")
						c.SendFrame(refhsms.DataHeader(h.sc.Sess, 6, 11, false, h.r.P.NextSys()), refhsms.ASCII("late"))
					}
				})
			}
		case sIntermittent:
			// two rounds of (N-1 ignored, 1 answered), then silence
			if k <= 2*sc.N && k%sc.N == 0 {
				answer(sc.RspDelay)
			}
		}
	case refhsms.STData:
		if !f.H.W() || h.dark() {
			return
		}
		if tok, _ := refhsms.ParseASCII(f.Body); tok == "long" {
			h.outFrom = f.WrittenAt
			hold := 3*sc.I + sc.T6 + 77*time.Microsecond
			h.outTo = w.Now() + hold + time.Millisecond
			w.After(hold, "long-reply", func() {
				if c.Alive() {
					c.SendFrame(refhsms.DataHeader(f.H.Session, f.H.Stream(), f.H.Function()+1, false, f.H.Sys), f.Body)
				}
			})

			return
		}
		c.SendFrame(refhsms.DataHeader(f.H.Session, f.H.Stream(), f.H.Function()+1, false, f.H.Sys), f.Body)
	}
}

// frameTimes returns the instants at which complete frames crossed the link, as the library sees
// them: its own writes (WrittenAt) and the arrival of the peer's frames.
func (h *harness) frameTimes() (tx, rx []time.Duration) {
	for _, f := range h.c.Rx {
		tx = append(tx, f.WrittenAt)
	}
	for _, t := range h.c.Tx {
		if at := t.DeliveredAt(); at >= 0 {
			rx = append(rx, at)
		}
	}

	return tx, rx
}

func (h *harness) final(reason string) {
	w, sc := h.w, h.sc
	if !h.started {
		w.Fail("HARNESS", "the session was never selected (%s)", reason)

		return
	}
	closed := h.c.L.A.ClosedAt
	eps := time.Millisecond
	var unanswered []*probe // the trailing run of unanswered probes
	for _, p := range h.probes {
		if p.answered || (h.reselAt > 0 && p.at < h.reselAt) {
			// (a probe of the session the peer ended belongs to a linktest the library has cancelled)
			unanswered = unanswered[:0]
		} else {
			unanswered = append(unanswered, p)
		}
	}
	ctx := fmt.Sprintf(" [script %s, interval %v, T6 %v, threshold %d, suppression %v; %d probes, trailing unanswered %d, closed at %v]", scriptNames[sc.Script], sc.I, sc.T6, sc.N, sc.Supp, len(h.probes), len(unanswered), closed)
	mustDropAfterN := func(why string) {
		if closed < 0 {
			w.Fail("NOT_DROPPED", "%s: the link is still up at %v%s", why, w.Now(), ctx)

			return
		}
		if len(unanswered) != sc.N {
			w.Fail("PROBE_COUNT", "%s: the link was dropped after %d consecutive unanswered probes; the threshold is %d%s", why, len(unanswered), sc.N, ctx)

			return
		}
		want := unanswered[sc.N-1].at + sc.T6
		if closed < want || closed > want+eps {
			w.Fail("DROP_TIME", "%s: dropped at %v; the %d-th consecutive probe was written at %v, so its T6 timeout is at %v%s", why, closed, sc.N, unanswered[sc.N-1].at, want, ctx)

			return
		}
		w.Probe("dropped_at_exactly_threshold_timeouts")
	}
	mustStayUp := func(why string) bool {
		if closed >= 0 {
			w.Fail("DROPPED_LIVE_LINK", "%s: the library dropped the link at %v%s", why, closed, ctx)

			return false
		}
		if st := h.r.C.State(); st != hsms.SelectedState {
			w.Fail("DROPPED_LIVE_LINK", "%s: State() is %v%s", why, st, ctx)

			return false
		}

		return true
	}
	spacing := func(ps []*probe) bool {
		// consecutive unanswered probes on an otherwise silent line: each T6 + interval after the last
		for i := 1; i < len(ps); i++ {
			want := ps[i-1].at + sc.T6 + sc.I
			if d := ps[i].at - want; d < 0 || d > eps {
				w.Fail("PROBE_TIME", "probe written at %v; the previous one (at %v) timed out at %v, so the next is due one interval later at %v%s", ps[i].at, ps[i-1].at, ps[i-1].at+sc.T6, want, ctx)

				return false
			}
		}

		return true
	}
	tx, rx := h.frameTimes()
	// ---- rules 1 and 2 (suppression on): never a probe within one interval of traffic, nor while
	// the long transaction is outstanding; suppression off: strictly periodic probing
	for i, p := range h.probes {
		if sc.Supp {
			for _, t := range append(append([]time.Duration(nil), tx...), rx...) {
				if t < p.at && p.at-t < sc.I {
					w.Fail("SUPPRESSION", "probe #%d was written at %v although a frame crossed the link at %v, less than one interval (%v) earlier%s", i, p.at, t, sc.I, ctx)

					return
				}
			}
			if h.outFrom >= 0 && p.at > h.outFrom && p.at < h.outTo {
				w.Fail("SUPPRESSION", "probe #%d was written at %v while a reply was outstanding (%v..%v)%s", i, p.at, h.outFrom, h.outTo, ctx)

				return
			}
		} else if h.reselAt > 0 && p.at >= h.reselAt && (i == 0 || h.probes[i-1].at < h.reselAt) {
			// first probe of the re-selected session: one interval after the new select
			if d := p.at - (h.reselAt + sc.I); d < -eps || d > eps {
				w.Fail("PROBE_TIME", "suppression off: the first probe of the re-selected session was written at %v; the session was re-selected at %v and the interval is %v%s", p.at, h.reselAt, sc.I, ctx)

				return
			}
		} else if i > 0 {
			prev := h.probes[i-1]
			done := prev.at + sc.T6
			if prev.answered {
				done = prev.rspAt
				if prev.rspTx != nil && prev.rspTx.DeliveredAt() >= 0 {
					done = prev.rspTx.DeliveredAt()
				}
			}
			if d := p.at - (done + sc.I); d < 0 || d > eps {
				w.Fail("PROBE_TIME", "suppression off: probe #%d written at %v; the previous probe completed at %v, so this one is due exactly one interval later (%v)%s", i, p.at, done, done+sc.I, ctx)

				return
			}
		} else if d := p.at - (h.selAt + sc.I); d < -eps || d > eps {
			w.Fail("PROBE_TIME", "suppression off: the first probe was written at %v; the session was selected at %v and the interval is %v%s", p.at, h.selAt, sc.I, ctx)

			return
		}
	}
	switch sc.Script {
	case sLateLife:
		if closed < 0 {
			last := time.Duration(-1)
			if n := len(h.probes); n > 0 {
				last = h.probes[n-1].at
			}
			w.Fail("NOT_DROPPED", "after one sign of life right after the threshold-th timeout the peer stayed silent for good: the link is still up at %v (%d probes, the last one written at %v — probing has stopped)%s", w.Now(), len(h.probes), last, ctx)

			return
		}
		ok := false
		for i, p := range h.probes {
			if want := p.at + sc.T6; i >= sc.N-1 && closed >= want && closed <= want+eps+2*time.Millisecond { // (+ the 2 ms the linktest goroutine may have been withheld)
				ok = true
			}
		}
		if !ok {
			w.Fail("DROP_TIME", "dropped at %v, which is not the T6 timeout of any probe that ends a run of %d unanswered probes%s", closed, sc.N, ctx)

			return
		}
		w.Probe("late_sign_of_life_credited_or_missed_then_dropped")
	case sSilent:
		if !spacing(unanswered) {
			return
		}
		mustDropAfterN("the peer went silent with nothing outstanding")
	case sDarkWithLocalSends:
		mustDropAfterN("the peer went dark (our own fire-and-forget sends are no sign of life)")
	case sAnswers:
		if !mustStayUp("the peer answered every probe") {
			return
		}
		if sc.Supp {
			// the line goes quiet at the end: probing must resume within two intervals of the last frame
			last := time.Duration(0)
			for _, t := range append(append([]time.Duration(nil), tx...), rx...) {
				if t > last {
					last = t
				}
			}
			if w.Now()-last > 2*sc.I+sc.T6+10*eps {
				w.Fail("NO_PROBE", "the line has been silent since %v (now %v) but no probe was sent%s", last, w.Now(), ctx)

				return
			}
		}
		w.Probe("answering_peer_kept")
	case sSlowButAlive:
		if sc.Supp && sc.Life == 1 && sc.N == 1 {
			// the late answer comes after the first timeout, and one timeout is the threshold
			mustDropAfterN("threshold 1: the first probe timed out before the late answer arrived")
		} else if sc.Supp {
			if closed < 0 && len(h.probes) == 0 {
				w.Fail("NO_PROBE", "the session has been Selected since %v with no traffic and nothing outstanding, but no probe was ever sent%s", h.selAt, ctx)

				return
			}
			if closed < 0 && len(h.probes) < sc.N+1 {
				w.Fail("HARNESS", "too few probes (%d) to exercise the threshold %d%s", len(h.probes), sc.N, ctx)

				return
			}
			why := "every probe timed out but a frame arrived inside each probe's T6 window"
			if sc.Life == 1 {
				why = "every probe timed out but its answer arrived late, before the next probe: life between consecutive timeouts"
			}
			if mustStayUp(why + " (" + lifeNames[sc.Life] + ")") {
				w.Probe("slow_but_alive_peer_kept_life" + fmt.Sprint(sc.Life))
			}
		} else {
			mustDropAfterN("suppression off: every timeout counts, whatever else is received")
		}
	case sOutstanding:
		if h.outFrom < 0 {
			w.Fail("HARNESS", "the long transaction never reached the peer%s", ctx)

			return
		}
		if mustStayUp("the peer answered every probe and one reply was outstanding for 3 intervals") {
			w.Probe("outstanding_reply_respected")
		}
	case sIntermittent:
		if !spacing(unanswered) {
			return
		}
		mustDropAfterN("two answered probes reset the run; then the peer stayed silent")
	}
}

// ---- pure part: the exported failure-accounting reducers against the documented rules

func buildPure() core.BuildFunc {
	return func(w *core.World) *core.Scenario {
		t := w.T
		n := 0
		done := false

		return &core.Scenario{
			Desc:    map[string]any{"engine": "pure linktest failure accounting"},
			Horizon: time.Second,
			Done: func() bool {
				if done {
					return true
				}
				done = true
				for it := 0; it < 300 && w.Viol == nil; it++ {
					supp := t.Choose("scn", 2) == 0
					thr := 1 + t.Choose("scn", 5)
					fails, rlf := 0, int64(0)
					now := int64(1000)
					lastRecv := int64(t.Choose("scn", 1000))
					silentRun := 0
					for step := 0; step < 30; step++ {
						sentAt := now
						now += int64(100 + t.Choose("scn", 900))
						kind := t.Choose("scn", 4) // 0 silence, 1 frame inside the window, 2 reply outstanding, 3 frame before the probe but after the last failure
						inflight := int64(0)
						switch kind {
						case 1:
							lastRecv = sentAt + 1 + int64(t.Choose("scn", int(now-sentAt-1)))
						case 2:
							inflight = int64(1 + t.Choose("scn", 3))
						}
						nf, nr, cred := hsmsss.VerifLinktestFailureStep(supp, lastRecv, sentAt, inflight, fails, rlf)
						n++
						life := lastRecv > sentAt || inflight > 0
						switch {
						case !supp:
							if nf != fails+1 || cred {
								w.Fail("ACCOUNTING", "suppression off: failure step gave fails %d->%d credited=%v; every timeout must count", fails, nf, cred)

								return true
							}
						case life:
							if nf != 0 || !cred || nr != rlf {
								w.Fail("ACCOUNTING", "suppression on, sign of life inside the probe window (recv %d > sent %d, inflight %d): fails %d->%d credited=%v", lastRecv, sentAt, inflight, fails, nf, cred)

								return true
							}
						case fails > 0 && lastRecv > rlf:
							if nf != 1 || cred {
								w.Fail("ACCOUNTING", "suppression on, a frame arrived since the previous counted failure: the run must restart at 1, got %d (credited=%v)", nf, cred)

								return true
							}
						default:
							if nf != fails+1 || cred {
								w.Fail("ACCOUNTING", "suppression on, silence: fails %d->%d credited=%v; must count", fails, nf, cred)

								return true
							}
						}
						if !supp || !life {
							if life || (supp && fails > 0 && lastRecv > rlf) {
								silentRun = 1
							} else {
								silentRun++
							}
						} else {
							silentRun = 0
						}
						fails, rlf = nf, nr
						if fails >= thr {
							drop := hsmsss.VerifLinktestDisconnectRecheck(supp, inflight, lastRecv, sentAt)
							if !supp && !drop {
								w.Fail("ACCOUNTING", "suppression off: the threshold was reached but the re-check refused to disconnect")

								return true
							}
							if supp && drop != (inflight <= 0 && lastRecv <= sentAt) {
								w.Fail("ACCOUNTING", "suppression on: re-check returned %v with inflight %d, recv %d, sent %d", drop, inflight, lastRecv, sentAt)

								return true
							}
							fails, rlf = 0, 0
						}
					}
				}
				w.Probes["pure_failure_steps"] += n

				return true
			},
			Nontrivial: func() bool { return n > 0 },
		}
	}
}
