package c19

import (
	"testing"

	"github.com/arloliu/go-secs/v2/verifsim/core"
)

func TestWorker(t *testing.T) {
	core.WorkerMain(t, core.Property{ID: "C19", Configs: []string{"e2e", "pure"}, Build: Build})
}
