package c11

import (
	"testing"

	"github.com/arloliu/go-secs/v2/verifsim/core"
)

func TestWorker(t *testing.T) {
	core.WorkerMain(t, core.Property{ID: "C11", Configs: []string{"sweep", "sweep-secs1", "seeded", "pure", "reopen"}, Build: Build})
}
