// Package c11 decides property C11: after any involuntary loss of an established or
// half-established link an open connection keeps (re)dialing / re-listening with the configured
// backoff (starts at the initial value, never decreases, never exceeds T5) and re-establishes a
// working Selected session once the peer is reachable; the reconnect counter rises by one per
// successful re-dial; nothing is attempted after Close.
//
// Configurations: "sweep" enumerates every cut position (role x direction x byte offset x
// FIN/RST/stall-forever) of the connect/select/data/linktest exchange; "seeded" draws runs of
// consecutive faults of every kind and random backoff configurations.
package c11

import (
	"context"
	"fmt"
	"math"
	"time"

	"github.com/arloliu/go-secs/v2/hsms"
	"github.com/arloliu/go-secs/v2/secs2"
	"github.com/arloliu/go-secs/v2/verifsim/core"
	"github.com/arloliu/go-secs/v2/verifsim/refe4"
	"github.com/arloliu/go-secs/v2/verifsim/refhsms"
	"github.com/arloliu/go-secs/v2/verifsim/rig"
	"github.com/arloliu/go-secs/v2/verifsim/simnet"
)

// ---------------------------------------------------------------- common peer

type when struct {
	cond func() bool
	then func()
	done bool
}

type base struct {
	tripCtx func() time.Duration // per-trip context timeout (nil = 5 s)
	tried   int                  // connections on which the application has made its round trip
	w       *core.World
	r       *rig.Rig
	whens   []*when

	active  bool
	conns   []*refhsms.Conn
	cutConn map[*refhsms.Conn]bool // the peer process behind this connection is gone / silent
	stop    bool

	usedListeners int
	okTrips       int
	lastOKGen     int
	tripErrs      int
}

func (b *base) when(cond func() bool, then func()) {
	b.whens = append(b.whens, &when{cond: cond, then: then})
}

func (b *base) poll() {
	for i := 0; i < len(b.whens); i++ {
		wn := b.whens[i]
		if !wn.done && wn.cond() {
			wn.done = true
			wn.then()
		}
	}
}

// healthy peer behaviour: select, answer linktest, answer W-bit primaries — unless the
// connection has been cut by the harness.
func (b *base) onFrame(c *refhsms.Conn, f refhsms.RxFrame, send func(c *refhsms.Conn, h refhsms.Header, body []byte)) {
	if b.cutConn[c] || f.H.PType != 0 {
		return
	}
	switch f.H.SType {
	case refhsms.STSelectReq:
		send(c, refhsms.Header{Session: f.H.Session, B3: 0, SType: refhsms.STSelectRsp, Sys: f.H.Sys}, nil)
	case refhsms.STLinktestReq:
		send(c, refhsms.Header{Session: 0xFFFF, SType: refhsms.STLinktestRsp, Sys: f.H.Sys}, nil)
	case refhsms.STData:
		if f.H.W() {
			send(c, refhsms.DataHeader(f.H.Session, f.H.Stream(), f.H.Function()+1, false, f.H.Sys), f.Body)
		}
	}
}

// tripLoop is the application: on every new generation, once the session is Selected, it does ONE
// W-bit round trip and then leaves the line idle (so that the linktest, not application traffic,
// is what has to notice a peer that went silent).
func (b *base) tripLoop(gap time.Duration) {
	w := b.w
	n := 0
	for !b.stop {
		if b.r.C.State() != hsms.SelectedState || len(b.conns) <= b.tried {
			core.Sleep(5 * time.Millisecond)

			continue
		}
		n++
		gen := len(b.conns)
		b.tried = gen
		tmo := 5 * time.Second
		if b.tripCtx != nil {
			tmo = b.tripCtx()
		}
		ctx, cancel := context.WithTimeout(context.Background(), tmo)
		rep, err := b.r.C.SendDataMessage(ctx, 1, 1, true, secs2.A("x"))
		cancel()
		if err == nil && rep != nil {
			b.okTrips++
			b.lastOKGen = gen
			w.Logf("trip ok gen=%d", gen)
		} else {
			b.tripErrs++
			w.Logf("trip failed gen=%d err=%v", gen, err)
		}
		core.Sleep(gap)
	}
}

// ---------------------------------------------------------------- sweep

const (
	exchangeBytes = 45 // Select (14) + data with a 3-byte body (17) + Linktest (14), each direction
	kFIN          = 0
	kRST          = 1
	kStall        = 2
)

var kindNames = []string{"fin", "rst", "stall-forever"}

type sweepCase struct {
	Active   bool
	ToLib    bool
	Off      int
	Kind     int
	Linktest bool
}

// sweepCases is the enumerated space: role x direction x byte offset x {FIN, RST, stall-forever},
// with the automatic linktest on; and again with it off for every case in which a timer other
// than the linktest covers the failure (FIN/RST anywhere; a stall while the select is incomplete
// — T6/T7 — or in the middle of an inbound frame — T8). A stall at an idle frame boundary with the
// linktest off is covered by no protocol timer and is outside the property.
var sweepCases = func() []sweepCase {
	var out []sweepCase
	boundary := func(off int) bool { return off == 0 || off == 14 || off == 31 || off == 45 }
	for _, lt := range []bool{true, false} {
		for _, active := range []bool{false, true} {
			for _, toLib := range []bool{false, true} {
				maxOff := exchangeBytes
				if !lt {
					maxOff = 31 // no Linktest frames are exchanged
				}
				for off := 0; off <= maxOff; off++ {
					for kind := 0; kind < 3; kind++ {
						if !lt && kind == kStall {
							covered := false
							if toLib {
								covered = off < 14 || !boundary(off)
							} else {
								covered = active && off < 14
							}
							if !covered {
								continue
							}
						}
						out = append(out, sweepCase{Active: active, ToLib: toLib, Off: off, Kind: kind, Linktest: lt})
					}
				}
			}
		}
	}

	return out
}()

// SweepCases is the size of the enumerated space.
var SweepCases = len(sweepCases)

func sweepCase_(idx int) sweepCase { return sweepCases[idx%SweepCases] }

type sweep struct {
	base
	cs          sweepCase
	fired       bool
	firedAt     time.Duration
	sentLib     int // bytes the peer has queued towards the library on connection 1
	exhausted   bool
	recovered   bool
	recoveredAt time.Duration
	bound       time.Duration
	init        time.Duration
}

func buildSweep() core.BuildFunc {
	return func(w *core.World) *core.Scenario {
		s := &sweep{}
		s.w = w
		s.cutConn = map[*refhsms.Conn]bool{}
		idx := int(((w.T.Seed % int64(SweepCases)) + int64(SweepCases)) % int64(SweepCases))
		s.cs = sweepCase_(idx)
		cs := s.cs
		s.active = cs.Active
		const (
			t3   = 300 * time.Millisecond
			t5   = 500 * time.Millisecond
			t6   = 200 * time.Millisecond
			t7   = 400 * time.Millisecond
			t8   = 150 * time.Millisecond
			lt   = 250 * time.Millisecond
			init = 50 * time.Millisecond
		)
		s.init = init
		s.bound = t3 + 2*lt + t6 + t7 + t8 + t5 + init + time.Second
		ltv := time.Duration(lt)
		if !cs.Linktest {
			ltv = 0
		}
		s.r = rig.New(w, rig.Opts{Active: cs.Active, Equip: !cs.Active, T3: t3, T5: t5, T6: t6, T7: t7, T8: t8, Linktest: ltv, LinkThreshold: 1,
			BackoffInit: init, BackoffMult: 2, CloseTimeout: time.Second})
		r := s.r
		r.P.AutoSelectRsp = -1
		r.P.AutoLinktest = false
		r.P.AutoDeselectRsp = false
		r.P.CloseOnEOF = true
		// library writes are segmented so that a segment boundary exists at the cut offset
		r.N.Seg = func(p *simnet.Pipe, n int) []simnet.SegPlan {
			if !cs.ToLib && len(s.conns) == 1 && p == s.conns[0].L.ToPeer() {
				start := p.Written - n
				if cs.Off > start && cs.Off < start+n {
					return []simnet.SegPlan{{Size: cs.Off - start, Delay: time.Millisecond}, {Size: start + n - cs.Off, Delay: time.Millisecond}}
				}
			}

			return []simnet.SegPlan{{Size: n, Delay: time.Millisecond}}
		}
		r.P.OnOpen = func(c *refhsms.Conn) {
			s.conns = append(s.conns, c)
			if !cs.Active {
				s.send(c, refhsms.Header{Session: 0xFFFF, SType: refhsms.STSelectReq, Sys: r.P.NextSys()}, nil)
			}
		}
		r.P.OnFrame = func(c *refhsms.Conn, f refhsms.RxFrame) { s.onFrame(c, f, s.send) }
		w.AddMonitor(func() { s.poll(); s.trigger() })
		r.Open(hsms.OpenBackground)
		if !cs.Active {
			s.peerDialLoop()
		}
		w.Go("app", func() { s.tripLoop(20 * time.Millisecond) })

		return &core.Scenario{
			Desc:    map[string]any{"case": idx, "active": cs.Active, "direction": map[bool]string{true: "peer->library", false: "library->peer"}[cs.ToLib], "offset": cs.Off, "kind": kindNames[cs.Kind], "linktest": cs.Linktest, "cases": SweepCases},
			Horizon: 15 * time.Second,
			Tag:     fmt.Sprintf("cut-%d", idx), TagSpace: SweepCases,
			Done: func() bool {
				if s.fired && !s.recovered && s.lastOKGen >= 2 && r.Selected() {
					s.recovered, s.recoveredAt = true, w.Now()
				}

				return (s.recovered && w.Now() > s.recoveredAt+600*time.Millisecond) || (s.fired && w.Now() > s.firedAt+s.bound+time.Second)
			},
			Final:      s.final,
			Cleanup:    func() { s.stop = true; r.Close() },
			Nontrivial: func() bool { return s.fired },
		}
	}
}

func (s *sweep) peerDialLoop() {
	w, r := s.w, s.r
	var tick func()
	tick = func() {
		if s.stop {
			return
		}
		// one connection per listener: a listener the library has not closed yet after a link failure
		// must not be dialled again (that would be a refused second connection, not a new session)
		if r.N.Listening(rig.Addr) && len(r.N.Listeners) > s.usedListeners {
			s.usedListeners = len(r.N.Listeners)
			r.P.Connect(rig.Addr)
		}
		w.After(10*time.Millisecond, "peer-dial-tick", tick)
	}
	w.After(0, "peer-dial-tick", tick)
}

// send: the peer's transmit path with the cut budget of connection 1 (peer->library direction).
func (s *sweep) send(c *refhsms.Conn, h refhsms.Header, body []byte) {
	if s.cutConn[c] {
		return
	}
	fr := refhsms.Frame(h, body)
	if s.cs.ToLib && len(s.conns) >= 1 && c == s.conns[0] {
		if s.exhausted {
			return
		}
		if s.sentLib+len(fr) > s.cs.Off {
			part := s.cs.Off - s.sentLib
			s.exhausted = true
			if part > 0 {
				c.SendRaw(fr[:part], h, nil, false)
				s.sentLib += part
			}

			return
		}
		s.sentLib += len(fr)
	}
	c.SendFrame(h, body)
}

// trigger applies the fault at the instant byte number Off has crossed the link.
func (s *sweep) trigger() {
	if s.fired || len(s.conns) == 0 {
		return
	}
	c := s.conns[0]
	cs := s.cs
	if cs.ToLib {
		if c.L.ToLib().Delivered < cs.Off || (!s.exhausted && cs.Off != s.sentLib) {
			return
		}
		if !s.exhausted && cs.Off == s.sentLib && c.L.ToLib().Delivered == cs.Off {
			// the cut falls on a frame boundary: the peer dies before sending its next frame
			s.exhausted = true
		}
	} else if c.L.ToPeer().Delivered < cs.Off {
		return
	}
	s.fired = true
	s.firedAt = s.w.Now()
	s.cutConn[c] = true
	s.w.Fault(kindNames[cs.Kind])
	switch cs.Kind {
	case kFIN:
		c.L.FIN()
	case kRST:
		c.L.RST()
	case kStall:
		c.L.Stall(true, 0)
		c.L.Stall(false, 0)
	}
}

func (s *sweep) final(reason string) {
	w, r := s.w, s.r
	if !s.fired {
		w.Fail("HARNESS", "cut case %v never fired (reason %s)", s.cs, reason)

		return
	}
	if !s.recovered {
		w.Fail("NO_RECOVERY", "link cut (%s at byte %d, %s, active=%v) at %v: no working Selected session within %v (state %v, %d connections, %d dials, %d listens)",
			kindNames[s.cs.Kind], s.cs.Off, map[bool]string{true: "peer->library", false: "library->peer"}[s.cs.ToLib], s.cs.Active, s.firedAt, s.bound, r.C.State(), len(s.conns), r.N.Dials, r.N.Listens)

		return
	}
	if s.recoveredAt > s.firedAt+s.bound {
		w.Fail("SLOW_RECOVERY", "recovered %v after the cut; bound %v", s.recoveredAt-s.firedAt, s.bound)

		return
	}
	closed := s.conns[0].L.A.ClosedAt
	if s.cs.Active {
		if r.N.Dials != 2 {
			w.Fail("DIALS", "one link failure with a reachable peer: %d dial attempts, want 2 (the first connect and one re-dial)", r.N.Dials)

			return
		}
		if gap := r.N.DialTimes[1] - closed; closed < 0 || gap != s.init {
			w.Fail("BACKOFF", "the re-dial came %v after the library closed the failed connection (at %v); the configured initial backoff is %v", gap, closed, s.init)

			return
		}
		if n := r.C.Metrics().Reconnects(); n != 1 {
			w.Fail("RECONNECTS", "one successful re-dial: Reconnects() = %d, want 1", n)

			return
		}
	} else {
		if r.N.Listens != 2 {
			w.Fail("LISTENS", "one link failure: %d listen calls, want 2 (the first and one re-listen)", r.N.Listens)

			return
		}
		if gap := r.N.ListenTimes[1] - closed; closed < 0 || gap != s.init {
			w.Fail("BACKOFF", "the re-listen came %v after the library closed the failed connection (at %v); the configured initial backoff is %v", gap, closed, s.init)

			return
		}
	}
	if g := r.C.Metrics().Reconnecting(); g != 0 {
		w.Fail("GAUGE", "Reconnecting() = %d at a quiescent Selected point", g)
	}
}

// ---------------------------------------------------------------- seeded

// fault kinds of the seeded configuration
const (
	fFIN = iota
	fRST
	fSilence         // peer goes silent (both directions stalled): a protocol timer must cover it
	fSelectRefused   // active only
	fSelectSilent    // never answers / never sends the select: T6 or T7
	fMidFrameStall   // half a frame, then nothing: T8
	fDialRefuse      // n refused dials (active) / listen errors (passive) before the next success
	fDialBlackhole   // dial that hangs until the connect timeout
	fWriteStall      // the peer stops reading: our next write blocks until the write timeout
	fReselectSilence // the peer deselects and re-selects the session on the same connection, then goes silent: the linktest of the NEW session must cover it
	nFaults
)

var faultNames = []string{"fin", "rst", "silence", "select-refused", "select-silent", "mid-frame-stall", "dial-refuse", "dial-blackhole", "write-stall", "reselect-then-silence"}

type faultSpec struct {
	Kind  int
	After time.Duration // after the generation is Selected (link faults)
	N     int           // failed attempts (dial faults)
}

type seededScn struct {
	Active         bool
	Init           time.Duration
	Mult           float64
	T5             time.Duration
	T3, T6, T7, T8 time.Duration
	Linktest       time.Duration
	Thr            int
	Suppress       bool
	ConnTO         time.Duration
	NoLinktest     bool // linktest off: every fault must be covered by another timer
	WriteTO        time.Duration
	ShortCtx       bool // the application's sends carry a context shorter than the write timeout
	T5Cut          bool // T5 is lowered at run time (UpdateConfigOptions) after the second failed attempt of an outage
	Faults         []faultSpec
	CloseEnd       bool
}

type attempt struct {
	start time.Duration
	end   time.Duration // when the attempt failed (== start for a refusal) or succeeded
	ok    bool
	conn  *refhsms.Conn
}

type seeded struct {
	base
	sc             seededScn
	attempts       []*attempt // dial (active) / listen (passive) attempts in order
	plan           []int      // outcome per upcoming attempt: 0 ok, 1 refuse, 2 blackhole
	faultIdx       int
	faultsDone     bool
	faultsDoneAt   time.Duration
	recovered      bool
	recoveredAt    time.Duration
	closedAt       time.Duration
	closeRet       bool
	okAttempts     int
	cover          time.Duration
	bound          time.Duration
	lastFaultArmed bool
	failRun        int
	t5CutAt        time.Duration // when T5 was lowered at run time (-1 = not)
	newT5          time.Duration
}

func genSeeded(t *core.Tape) seededScn {
	sc := seededScn{}
	sc.Active = t.Choose("scn", 2) == 1
	sc.Init = []time.Duration{50 * time.Millisecond, time.Millisecond, 200 * time.Millisecond, 800 * time.Millisecond, 7 * time.Millisecond}[t.Choose("scn", 5)]
	sc.Mult = []float64{2, 1, 1.5, 10, 1e9, 1e300, 3}[t.Choose("scn", 7)]
	sc.T5 = []time.Duration{500 * time.Millisecond, 100 * time.Millisecond, 2 * time.Second, 33 * time.Millisecond}[t.Choose("scn", 4)]
	sc.T3 = 300 * time.Millisecond
	sc.T6 = []time.Duration{200 * time.Millisecond, 80 * time.Millisecond}[t.Choose("scn", 2)]
	sc.T7 = []time.Duration{400 * time.Millisecond, 150 * time.Millisecond}[t.Choose("scn", 2)]
	sc.T8 = []time.Duration{150 * time.Millisecond, 60 * time.Millisecond}[t.Choose("scn", 2)]
	sc.Linktest = []time.Duration{250 * time.Millisecond, 100 * time.Millisecond}[t.Choose("scn", 2)]
	sc.Thr = 1 + t.Choose("scn", 3)
	sc.Suppress = t.Choose("scn", 2) == 0
	sc.ConnTO = 300 * time.Millisecond
	sc.NoLinktest = t.Choose("scn", 3) == 2
	sc.WriteTO = []time.Duration{300 * time.Millisecond, 150 * time.Millisecond}[t.Choose("scn", 2)]
	sc.ShortCtx = t.Choose("scn", 2) == 1
	sc.T5Cut = t.Choose("scn", 3) == 0
	if sc.NoLinktest {
		sc.Linktest = 0
	}
	n := 1 + t.Choose("scn", 4)
	for i := 0; i < n; i++ {
		f := faultSpec{Kind: t.Choose("scn", nFaults), After: time.Duration(t.Choose("scn", 30)) * 10 * time.Millisecond, N: 1 + t.Choose("scn", 5)}
		if f.Kind == fSelectRefused && !sc.Active {
			f.Kind = fSelectSilent
		}
		if f.Kind == fDialBlackhole && !sc.Active {
			f.Kind = fDialRefuse
		}
		if (f.Kind == fSilence || f.Kind == fReselectSilence) && sc.NoLinktest {
			f.Kind = fWriteStall // plain silence is covered by the linktest only
		}
		sc.Faults = append(sc.Faults, f)
	}
	sc.CloseEnd = t.Choose("scn", 2) == 1

	return sc
}

func buildSeeded() core.BuildFunc {
	return func(w *core.World) *core.Scenario {
		s := &seeded{}
		s.w = w
		s.cutConn = map[*refhsms.Conn]bool{}
		s.sc = genSeeded(w.T)
		sc := s.sc
		s.active = sc.Active
		s.closedAt = -1
		s.t5CutAt = -1
		s.r = rig.New(w, rig.Opts{Active: sc.Active, Equip: !sc.Active, T3: sc.T3, T5: sc.T5, T6: sc.T6, T7: sc.T7, T8: sc.T8, Linktest: sc.Linktest, LinkThreshold: sc.Thr,
			BackoffInit: sc.Init, BackoffMult: sc.Mult, CloseTimeout: time.Second, ConnectTimeout: sc.ConnTO, Suppress: &sc.Suppress, WriteTimeout: &sc.WriteTO})
		r := s.r
		if sc.ShortCtx {
			s.tripCtx = func() time.Duration { return sc.WriteTO / 3 }
		}
		r.P.AutoSelectRsp = -1
		r.P.AutoLinktest = false
		r.P.AutoDeselectRsp = false
		// worst case for one covered stall, plus the longest run of failed attempts at the T5 ceiling
		cover := sc.T3 + time.Duration(sc.Thr+1)*(sc.Linktest+sc.T6) + sc.T7 + sc.T8 + 2*sc.WriteTO
		s.cover = cover
		s.bound = cover + 6*(sc.T5+sc.ConnTO) + sc.Init + time.Second
		r.N.DialPlan = func(n int, address string) simnet.DialOutcome {
			a := &attempt{start: w.Now()}
			s.attempts = append(s.attempts, a)
			out := 0
			if len(s.plan) > 0 {
				out, s.plan = s.plan[0], s.plan[1:]
			}
			if out != 0 {
				s.failRun++
				if sc.T5Cut && s.failRun == 2 && s.t5CutAt < 0 {
					s.newT5 = sc.T5 / 8
					if s.newT5 < 2*time.Millisecond {
						s.newT5 = 2 * time.Millisecond
					}
					if err := r.C.UpdateConfigOptions(hsms.WithT5(s.newT5)); err == nil {
						s.t5CutAt = w.Now()
						w.Fault("t5-lowered-during-outage")
					}
				}
			} else {
				s.failRun = 0
			}
			switch out {
			case 1:
				a.end = a.start
				w.Fault("dial-refused")

				return simnet.DialOutcome{Kind: 1}
			case 2:
				a.end = a.start + sc.ConnTO
				w.Fault("dial-blackhole")

				return simnet.DialOutcome{Kind: 2}
			}
			a.ok, a.end = true, a.start

			return simnet.DialOutcome{}
		}
		r.N.ListenPlan = func(n int, address string) error {
			a := &attempt{start: w.Now(), end: w.Now()}
			s.attempts = append(s.attempts, a)
			out := 0
			if len(s.plan) > 0 {
				out, s.plan = s.plan[0], s.plan[1:]
			}
			if out != 0 {
				w.Fault("listen-error")

				return simnet.ErrAddrInUse
			}
			a.ok = true

			return nil
		}
		r.P.OnOpen = s.onOpen
		r.P.OnFrame = func(c *refhsms.Conn, f refhsms.RxFrame) { s.onPeerFrame(c, f) }
		w.AddMonitor(s.poll)
		w.AddMonitor(s.reconnectsNeverAhead)
		r.Open(hsms.OpenBackground)
		if !sc.Active {
			s.peerDialLoop()
		}
		w.Go("app", func() { s.tripLoop(15 * time.Millisecond) })

		return &core.Scenario{
			Desc:    s.describe(),
			Horizon: 60 * time.Second,
			Done: func() bool {
				if s.faultsDone && !s.recovered && s.lastOKGen >= len(s.conns) && len(s.conns) > 0 && !s.cutConn[s.conns[len(s.conns)-1]] && r.Selected() && s.genAfterFaults() {
					s.recovered, s.recoveredAt = true, w.Now()
					if sc.CloseEnd {
						w.Go("closer", func() {
							s.closedAt = w.Now()
							_ = r.C.Close()
							s.closeRet = true
						})
					}
				}
				if s.recovered {
					if sc.CloseEnd {
						return s.closeRet && w.Now() > s.closedAt+2*sc.T5+200*time.Millisecond
					}

					return w.Now() > s.recoveredAt+300*time.Millisecond
				}

				return s.faultsDone && w.Now() > s.faultsDoneAt+s.bound+time.Second
			},
			Final:      s.final,
			Cleanup:    func() { s.stop = true; r.Close() },
			Nontrivial: func() bool { return s.faultsDone && len(s.attempts) >= 2 },
		}
	}
}

func (s *seeded) describe() map[string]any {
	sc := s.sc
	var fs []string
	for _, f := range sc.Faults {
		fs = append(fs, fmt.Sprintf("%s(after=%v,n=%d)", faultNames[f.Kind], f.After, f.N))
	}

	return map[string]any{"active": sc.Active, "backoffInitial": sc.Init.String(), "multiplier": sc.Mult, "T5": sc.T5.String(), "T6": sc.T6.String(), "T7": sc.T7.String(), "T8": sc.T8.String(),
		"linktest": sc.Linktest.String(), "threshold": sc.Thr, "suppression": sc.Suppress, "writeTimeout": sc.WriteTO.String(), "shortSendCtx": sc.ShortCtx, "faults": fs, "closeAtEnd": sc.CloseEnd}
}

// genAfterFaults: the newest connection was established after the last fault was injected.
func (s *seeded) genAfterFaults() bool {
	c := s.conns[len(s.conns)-1]

	return c.OpenedAt >= s.faultsDoneAt
}

func (s *seeded) peerDialLoop() {
	w, r := s.w, s.r
	var tick func()
	tick = func() {
		if s.stop {
			return
		}
		if r.N.Listening(rig.Addr) && len(r.N.Listeners) > s.usedListeners {
			s.usedListeners = len(r.N.Listeners)
			r.P.Connect(rig.Addr)
		}
		w.After(7*time.Millisecond, "peer-dial-tick", tick)
	}
	w.After(0, "peer-dial-tick", tick)
}

func (s *seeded) sendTo(c *refhsms.Conn, h refhsms.Header, body []byte) {
	if !s.cutConn[c] {
		c.SendFrame(h, body)
	}
}

// onOpen: a connection is up. The next fault of the script (if any) decides how it goes.
func (s *seeded) onOpen(c *refhsms.Conn) {
	w, sc := s.w, s.sc
	s.conns = append(s.conns, c)
	s.okAttempts++
	var f *faultSpec
	if s.faultIdx < len(sc.Faults) {
		f = &sc.Faults[s.faultIdx]
	}
	selectNow := func() {
		if !sc.Active {
			s.sendTo(c, refhsms.Header{Session: 0xFFFF, SType: refhsms.STSelectReq, Sys: s.r.P.NextSys()}, nil)
		}
	}
	next := func() {
		s.faultIdx++
		if s.faultIdx >= len(sc.Faults) {
			s.faultsDone, s.faultsDoneAt = true, w.Now()
			s.bound = s.cover + time.Duration(len(s.plan)+2)*(sc.T5+sc.ConnTO) + sc.Init + time.Second
		} else if k := sc.Faults[s.faultIdx].Kind; k == fDialRefuse || k == fDialBlackhole {
			// the following fault is a run of failed attempts: arm it now, it applies to the re-dials
			nf := sc.Faults[s.faultIdx]
			for i := 0; i < nf.N; i++ {
				s.plan = append(s.plan, map[int]int{fDialRefuse: 1, fDialBlackhole: 2}[k])
			}
			s.faultIdx++
			if s.faultIdx >= len(sc.Faults) {
				s.faultsDone, s.faultsDoneAt = true, w.Now()
				// the failed attempts still planned each cost at most one T5 wait plus a connect timeout
				s.bound = s.cover + time.Duration(len(s.plan)+2)*(sc.T5+sc.ConnTO) + sc.Init + time.Second
			}
		}
	}
	if f == nil {
		selectNow()

		return
	}
	switch f.Kind {
	case fDialRefuse, fDialBlackhole:
		// a dial-fault as the FIRST fault needs a link failure to trigger re-dials: cut this link
		selectNow()
		s.when(func() bool { return s.r.Selected() && s.r.P.Last() == c }, func() {
			w.After(f.After, "fault", func() {
				for i := 0; i < f.N; i++ {
					s.plan = append(s.plan, map[int]int{fDialRefuse: 1, fDialBlackhole: 2}[f.Kind])
				}
				s.cutConn[c] = true
				w.Fault("rst")
				c.L.RST()
				next()
			})
		})
	case fSelectRefused:
		w.Fault("select-refused")
		s.cutConn[c] = true // answer nothing else on this connection
		s.when(func() bool { return len(c.Rx) > 0 }, func() {
			for _, fr := range c.Rx {
				if fr.H.SType == refhsms.STSelectReq {
					c.SendFrame(refhsms.Header{Session: fr.H.Session, B3: 3, SType: refhsms.STSelectRsp, Sys: fr.H.Sys}, nil)
				}
			}
			next()
		})
	case fSelectSilent:
		w.Fault("select-silent")
		s.cutConn[c] = true
		next()
	case fMidFrameStall:
		// establish, then send half a data frame and nothing more: T8 must drop the link
		selectNow()
		s.when(func() bool { return s.r.Selected() && s.r.P.Last() == c }, func() {
			w.After(f.After, "fault", func() {
				if !c.Alive() {
					next()

					return
				}
				w.Fault("mid-frame-stall")
				s.cutConn[c] = true
				fr := refhsms.Frame(refhsms.DataHeader(0xFFFF, 1, 3, false, 0x99), refhsms.ASCII("half"))
				c.SendRaw(fr[:1+w.T.Choose("peer", len(fr)-1)], refhsms.Header{}, nil, false)
				next()
			})
		})
	default: // fFIN, fRST, fSilence on an established session
		selectNow()
		s.when(func() bool { return s.r.Selected() && s.r.P.Last() == c }, func() {
			w.After(f.After, "fault", func() {
				if !c.Alive() {
					next()

					return
				}
				s.cutConn[c] = true
				w.Fault(faultNames[f.Kind])
				switch f.Kind {
				case fFIN:
					c.L.FIN()
				case fRST:
					c.L.RST()
				case fSilence:
					c.L.Stall(true, 0)
					c.L.Stall(false, 0)
				case fReselectSilence:
					c.SendFrame(refhsms.Header{Session: 0xFFFF, SType: refhsms.STDeselectReq, Sys: s.r.P.NextSys()}, nil)
					w.After(5*time.Millisecond, "reselect", func() {
						if c.Alive() {
							c.SendFrame(refhsms.Header{Session: 0xFFFF, SType: refhsms.STSelectReq, Sys: s.r.P.NextSys()}, nil)
						}
						w.After(5*time.Millisecond, "silence", func() {
							c.L.Stall(true, 0)
							c.L.Stall(false, 0)
						})
					})
				case fWriteStall:
					// the peer's receive window closes; it keeps its own direction open and stays quiet
					c.L.SetCap(8)
					c.L.Stall(false, 0)
					s.tried = len(s.conns) - 1 // the application sends again: that write meets the closed window
				}
				next()
			})
		})
	}
}

func (s *seeded) onPeerFrame(c *refhsms.Conn, f refhsms.RxFrame) {
	s.onFrame(c, f, s.sendTo)
}

// wantReconnects: successful re-dials so far, per the dial log (the success that completes the very
// first, cold connect is not a reconnect).
func (s *seeded) wantReconnects() (want uint64, okRedials int, firstOK bool) {
	for i, a := range s.attempts {
		if i > 0 && a.ok {
			okRedials++
		}
	}
	firstOK = len(s.attempts) > 0 && s.attempts[0].ok
	want = uint64(okRedials)
	if !firstOK && okRedials > 0 {
		want--
	}

	return want, okRedials, firstOK
}

// reconnectsNeverAhead is evaluated at every driver step: the counter moves only WITH a successful
// re-dial, so it is never ahead of the dial log (a loop that is still failing has counted nothing).
func (s *seeded) reconnectsNeverAhead() {
	if !s.sc.Active || s.w.Stopped() {
		return
	}
	if want, _, _ := s.wantReconnects(); s.r.C.Metrics().Reconnects() > want {
		s.w.Fail("RECONNECTS", "Reconnects() = %d while the dial log shows only %d successful re-dials so far (%d attempts): the counter moved without a successful re-dial", s.r.C.Metrics().Reconnects(), want, len(s.attempts))
	}
}

// refBackoff is the reference backoff sequence: the k-th wait of a reconnect loop.
func refBackoff(init time.Duration, mult float64, t5 time.Duration, k int) time.Duration {
	d := float64(init)
	for i := 0; i < k; i++ {
		d *= mult
		if d > float64(t5) || math.IsInf(d, 0) || math.IsNaN(d) {
			d = float64(t5)
		}
	}
	if d > float64(t5) {
		d = float64(t5)
	}

	return time.Duration(d)
}

func (s *seeded) final(reason string) {
	w, r, sc := s.w, s.r, s.sc
	if !s.faultsDone {
		w.Fail("NO_RECOVERY", "the fault script stalled at fault %d of %d (reason %s, state %v, %d attempts): the connection stopped trying", s.faultIdx, len(sc.Faults), reason, r.C.State(), len(s.attempts))

		return
	}
	if !s.recovered {
		w.Fail("NO_RECOVERY", "faults stopped at %v; no working Selected session within %v (state %v, %d connections, %d attempts, last attempt at %v)",
			s.faultsDoneAt, s.bound, r.C.State(), len(s.conns), len(s.attempts), s.attempts[len(s.attempts)-1].start)

		return
	}
	// ---- attempt log against the reference backoff. A "loop" starts when an established
	// connection is lost (or the first attempt of an active OpenBackground fails) and ends with the
	// first successful attempt.
	k := 0 // index within the current loop
	var prevEnd time.Duration = -1
	connIdx := 0
	for i, a := range s.attempts {
		if s.closeRet && a.start > s.closedAt && s.closedAt >= 0 {
			w.Fail("AFTER_CLOSE", "attempt #%d at %v, after Close was called at %v", i, a.start, s.closedAt)

			return
		}
		if i > 0 {
			if prevEnd < 0 {
				w.Fail("HARNESS", "attempt #%d without a preceding failure", i)

				return
			}
			gap := a.start - prevEnd
			want := refBackoff(sc.Init, sc.Mult, sc.T5, k)
			if s.t5CutAt >= 0 && prevEnd >= s.t5CutAt {
				// T5 was lowered while this outage lasted: every later wait is bounded by the NEW value
				// (the exact curve after a change is the implementation's business)
				if gap > s.newT5+time.Microsecond {
					w.Fail("BACKOFF", "attempt #%d started %v after the previous failure at %v, but T5 had been lowered to %v at %v (UpdateConfigOptions): delays never exceed T5", i, gap, prevEnd, s.newT5, s.t5CutAt)

					return
				}
				k++
				if a.ok {
					k, prevEnd = 0, -1
					if connIdx < len(s.conns) {
						prevEnd = s.conns[connIdx].L.A.ClosedAt
						connIdx++
					}
				} else {
					prevEnd = a.end
				}

				continue
			}
			if gap > sc.T5 {
				w.Fail("BACKOFF", "attempt #%d started %v after the previous failure: exceeds T5=%v (initial %v, multiplier %g)", i, gap, sc.T5, sc.Init, sc.Mult)

				return
			}
			// the reference multiplies in floating point; an implementation that truncates to whole
			// nanoseconds at every step differs by a few nanoseconds — not a backoff error
			if d := gap - want; d > time.Microsecond || d < -time.Microsecond {
				w.Fail("BACKOFF", "attempt #%d (retry %d of its reconnect loop) started %v after the previous failure at %v; the reference backoff min(initial*multiplier^k, T5) gives %v (initial %v, multiplier %g, T5 %v)",
					i, k, gap, prevEnd, want, sc.Init, sc.Mult, sc.T5)

				return
			}
			k++
		}
		if a.ok {
			// this attempt produced (or, passive, will host) a connection; the loop restarts when it is lost
			k = 0
			prevEnd = -1
			if sc.Active {
				if connIdx < len(s.conns) {
					prevEnd = s.conns[connIdx].L.A.ClosedAt
					connIdx++
				}
			} else {
				// passive: one listen hosts one accepted connection
				if connIdx < len(s.conns) {
					prevEnd = s.conns[connIdx].L.A.ClosedAt
					connIdx++
				}
			}
		} else {
			prevEnd = a.end
		}
	}
	if sc.Active {
		want, _, firstOK := s.wantReconnects()
		if got := r.C.Metrics().Reconnects(); got != want {
			w.Fail("RECONNECTS", "Reconnects() = %d; the dial log shows %d successful re-dials after an established link was lost (first connect ok=%v)", got, want, firstOK)

			return
		}
	}
	if sc.CloseEnd {
		if st := r.C.State(); st != hsms.NotConnectedState {
			w.Fail("AFTER_CLOSE", "State() = %v after Close", st)
		}
	} else if g := r.C.Metrics().Reconnecting(); g != 0 {
		w.Fail("GAUGE", "Reconnecting() = %d at a quiescent Selected point", g)
	}
}

// ---------------------------------------------------------------- pure backoff fold (supporting check)

func buildPure() core.BuildFunc {
	return func(w *core.World) *core.Scenario {
		t := w.T
		n := 0
		done := false

		return &core.Scenario{
			Desc:    map[string]any{"engine": "pure nextBackoffDelay fold"},
			Horizon: time.Second,
			Done: func() bool {
				if done {
					return true
				}
				done = true
				for i := 0; i < 400 && w.Viol == nil; i++ {
					ceil := time.Duration(1+t.Choose("scn", 1<<20)) * time.Duration([]int64{1, 1000, 1000000, 1000000000}[t.Choose("scn", 4)])
					cur := time.Duration(1+t.Choose("scn", 1<<20)) * time.Duration([]int64{1, 1000, 1000000, 1000000000}[t.Choose("scn", 4)])
					mult := []float64{1, 1.0000001, 1.5, 2, 10, 1e6, 1e18, 1e300, math.MaxFloat64, math.Inf(1), math.NaN()}[t.Choose("scn", 11)]
					last := cur
					for k := 0; k < 12; k++ {
						got := hsms.VerifNextBackoffDelay(last, mult, ceil)
						n++
						if got <= 0 || got > ceil {
							w.Fail("BACKOFF_PURE", "nextBackoffDelay(%v, %g, %v) = %v: outside (0, ceil]", last, mult, ceil, got)

							return true
						}
						prod := float64(last) * mult
						if prod <= float64(ceil) && !math.IsNaN(prod) && last <= ceil {
							if want := time.Duration(prod); got != want && want > 0 {
								w.Fail("BACKOFF_PURE", "nextBackoffDelay(%v, %g, %v) = %v, want %v", last, mult, ceil, got, want)

								return true
							}
							if got < last && mult >= 1 {
								w.Fail("BACKOFF_PURE", "nextBackoffDelay(%v, %g, %v) = %v: decreased", last, mult, ceil, got)

								return true
							}
						} else if got != ceil {
							w.Fail("BACKOFF_PURE", "nextBackoffDelay(%v, %g, %v) = %v, want the ceiling", last, mult, ceil, got)

							return true
						}
						last = got
					}
				}
				w.Probes["pure_backoff_evaluations"] += n

				return true
			},
			Nontrivial: func() bool { return n > 0 },
		}
	}
}

// Build selects the configuration.
func Build(config string) core.BuildFunc {
	switch config {
	case "sweep":
		return buildSweep()
	case "sweep-secs1":
		return buildSweepSECS1()
	case "pure":
		return buildPure()
	case "reopen":
		return buildReopen()
	default:
		return buildSeeded()
	}
}

// ---------------------------------------------------------------- sweep over the SECS-I transport

const s1Exchange = 19 // per direction: ENQ/EOT/ACK (3 characters) + one 16-byte block

type s1Case struct {
	Equip, Active, ToLib bool
	Off, Kind            int
}

// s1Cases: role x TCP role x direction x byte offset 0..19 x {FIN, RST, stall-forever}. SECS-I has
// no linktest: a stall is only noticed through the T2 retries of the next block the library sends,
// so the application keeps retrying its round trip and a stall after the whole exchange (offset 19),
// which no timer covers, is not in the space.
var s1Cases = func() []s1Case {
	var out []s1Case
	for _, equip := range []bool{false, true} {
		for _, active := range []bool{false, true} {
			for _, toLib := range []bool{false, true} {
				for off := 0; off <= s1Exchange; off++ {
					for kind := 0; kind < 3; kind++ {
						if kind == kStall && off == s1Exchange {
							continue
						}
						out = append(out, s1Case{equip, active, toLib, off, kind})
					}
				}
			}
		}
	}

	return out
}()

type sweep1 struct {
	w             *core.World
	r             *rig.Rig1
	cs            s1Case
	links         []*simnet.Link
	fired         bool
	firedAt       time.Duration
	okGen         int
	stop          bool
	recovered     bool
	recoveredAt   time.Duration
	bound         time.Duration
	init          time.Duration
	usedListeners int
}

func buildSweepSECS1() core.BuildFunc {
	return func(w *core.World) *core.Scenario {
		s := &sweep1{w: w}
		n := int64(len(s1Cases))
		idx := int(((w.T.Seed % n) + n) % n)
		s.cs = s1Cases[idx]
		cs := s.cs
		const (
			t1   = 40 * time.Millisecond
			t2   = 100 * time.Millisecond
			t3   = 300 * time.Millisecond
			t5   = 500 * time.Millisecond
			init = 50 * time.Millisecond
		)
		s.init = init
		s.bound = t3 + 2*(2*t2)*2 + t5 + init + time.Second
		device := uint16(1 + idx%3000)
		s.r = rig.NewSECS1(w, rig.Opts1{Active: cs.Active, Equip: cs.Equip, Device: device, T1: t1, T2: t2, T3: t3, T4: time.Second, T5: t5, Retry: 1,
			BackoffInit: init, BackoffMult: 2, CloseTimeout: time.Second})
		r := s.r
		attach := func(l *simnet.Link, p *refe4.Peer) {
			p.L = l
			s.links = append(s.links, l)
			p.OnBlock = func(b refe4.RxBlock) {
				if b.Valid && b.H.E && b.H.W && !p.Dead {
					rh := refe4.Header{Device: device, R: !b.H.R, Stream: b.H.Stream, Func: b.H.Func + 1, Num: 1, E: true, Sys: b.H.Sys}
					p.SendBlock(refe4.Wire(rh, []byte{0x41, 0x01, 'y'}), nil, nil, nil)
				}
			}
			if len(s.links) != 1 {
				return
			}
			// the first connection is the one that gets cut
			pipe := l.ToPeer()
			if cs.ToLib {
				pipe = l.ToLib()
			}
			fire := func() {
				if s.fired {
					return
				}
				s.fired, s.firedAt = true, w.Now()
				p.Dead = true
				w.Fault(kindNames[cs.Kind])
				switch cs.Kind {
				case kFIN:
					l.FIN()
				case kRST:
					l.RST()
				case kStall:
					l.Stall(true, 0)
					l.Stall(false, 0)
				}
			}
			if cs.Off == 0 {
				w.After(0, "cut", fire)
			} else {
				pipe.CutAt = cs.Off
				pipe.OnCut = fire
			}
		}
		r.N.OnConnect = func(l *simnet.Link) simnet.RawEnd {
			p := refe4.New(w, !cs.Equip, t1, t2)
			attach(l, p)

			return p
		}
		if !cs.Active {
			var tick func()
			tick = func() {
				if s.stop {
					return
				}
				if r.N.Listening(rig.Addr) && len(r.N.Listeners) > s.usedListeners {
					s.usedListeners = len(r.N.Listeners)
					p := refe4.New(w, !cs.Equip, t1, t2)
					if l := r.N.PeerConnect(rig.Addr, p); l != nil {
						attach(l, p)
					}
				}
				w.After(10*time.Millisecond, "peer-dial-tick", tick)
			}
			w.After(0, "peer-dial-tick", tick)
		}
		r.Open()
		w.Go("app", func() {
			// the application retries its round trip until it has succeeded once on each generation
			for !s.stop {
				if !r.Selected() || len(s.links) <= s.okGen {
					core.Sleep(5 * time.Millisecond)

					continue
				}
				gen := len(s.links)
				rep, err := r.C.SendDataMessage(context.Background(), 1, 1, true, secs2.A("x"))
				if err == nil && rep != nil {
					s.okGen = gen
					w.Logf("trip ok gen=%d", gen)
				} else {
					w.Logf("trip failed gen=%d err=%v", gen, err)
					core.Sleep(30 * time.Millisecond)
				}
			}
		})

		return &core.Scenario{
			Desc: map[string]any{"transport": "secs1", "case": idx, "equip": cs.Equip, "active": cs.Active, "direction": map[bool]string{true: "peer->library", false: "library->peer"}[cs.ToLib],
				"offset": cs.Off, "kind": kindNames[cs.Kind], "cases": len(s1Cases)},
			Horizon: 20 * time.Second,
			Tag:     fmt.Sprintf("s1cut-%d", idx), TagSpace: len(s1Cases),
			Done: func() bool {
				if s.fired && !s.recovered && s.okGen >= 2 && r.Selected() {
					s.recovered, s.recoveredAt = true, w.Now()
				}

				return (s.recovered && w.Now() > s.recoveredAt+300*time.Millisecond) || (s.fired && w.Now() > s.firedAt+s.bound+time.Second) || (!s.fired && w.Now() > 5*time.Second)
			},
			Final:      s.final,
			Cleanup:    func() { s.stop = true; _ = r.C.Close() },
			Nontrivial: func() bool { return s.fired },
		}
	}
}

func (s *sweep1) final(reason string) {
	w, r, cs := s.w, s.r, s.cs
	dir := map[bool]string{true: "peer->library", false: "library->peer"}[cs.ToLib]
	if !s.fired {
		w.Fail("HARNESS", "SECS-I cut case %+v never fired (reason %s)", cs, reason)

		return
	}
	if !s.recovered {
		w.Fail("NO_RECOVERY", "SECS-I line cut (%s at byte %d, %s, equipment=%v active=%v) at %v: no working session within %v (state %v, %d connections, %d dials, %d listens)",
			kindNames[cs.Kind], cs.Off, dir, cs.Equip, cs.Active, s.firedAt, s.bound, r.C.State(), len(s.links), r.N.Dials, r.N.Listens)

		return
	}
	if s.recoveredAt > s.firedAt+s.bound {
		w.Fail("SLOW_RECOVERY", "recovered %v after the cut; bound %v", s.recoveredAt-s.firedAt, s.bound)

		return
	}
	closed := s.links[0].A.ClosedAt
	attempts, times := r.N.Dials, r.N.DialTimes
	what := "dial"
	if !cs.Active {
		attempts, times, what = r.N.Listens, r.N.ListenTimes, "listen"
	}
	if attempts != 2 {
		w.Fail("ATTEMPTS", "one line failure with a reachable peer: %d %s attempts, want 2", attempts, what)

		return
	}
	if gap := times[1] - closed; closed < 0 || gap != s.init {
		w.Fail("BACKOFF", "the second %s came %v after the library closed the failed connection (at %v); the configured initial backoff is %v", what, gap, closed, s.init)

		return
	}
	if cs.Active {
		if n := r.C.Metrics().Reconnects(); n != 1 {
			w.Fail("RECONNECTS", "one successful re-dial: Reconnects() = %d, want 1", n)

			return
		}
	}
	if g := r.C.Metrics().Reconnecting(); g != 0 {
		w.Fail("GAUGE", "Reconnecting() = %d at a quiescent Selected point", g)
	}
}
