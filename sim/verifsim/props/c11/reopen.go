package c11

// Configuration "reopen": recovery must not depend on how the connection got to where it is. An
// active HSMS-SS connection goes through one of three histories and then meets an unreachable peer
// that comes back after N refused dials:
//   - close-reopen:  Open, Selected, Close, Open(background) while the peer is down;
//   - failed-open:   Open(wait for Selected) fails against a refusing peer (the Open is rolled back),
//                    then Open(background) while the peer is still down;
//   - close-in-dial: Selected; the link is reset and N dials are refused; the application calls Close while
//                    the next dial — which succeeds — is completing (the dialing goroutine is withheld with
//                    the new connection in hand): nothing may be attempted, adopted or counted after Close.
//   - wedged-drop:   Selected; the peer sends a primary whose handler blocks for longer than the close
//                    timeout and then resets the link: the teardown of the lost generation times out
//                    — the connection is still open and must keep dialing.
// Oracle: the dials keep coming (never more than T5 apart, plus the connect handling), a working
// Selected session exists within the bound after the peer is reachable again, one W-bit round trip
// succeeds on it, and the reconnect counter equals the successful re-dials of the dial log.

import (
	"context"
	"fmt"
	"time"

	"github.com/arloliu/go-secs/v2/hsms"
	"github.com/arloliu/go-secs/v2/verifsim/core"
	"github.com/arloliu/go-secs/v2/verifsim/refhsms"
	"github.com/arloliu/go-secs/v2/verifsim/rig"
	"github.com/arloliu/go-secs/v2/verifsim/simnet"
)

const (
	hCloseReopen = iota
	hFailedOpen
	hWedgedDrop
	hCloseInDial
	nHistories
)

var historyNames = []string{"close-reopen", "failed-open-then-background", "wedged-handler-drop", "close-while-a-re-dial-completes"}

type reopenScn struct {
	History int
	Equip   bool
	N       int // refused dials before the peer is reachable again
	Init    time.Duration
	T5      time.Duration
	CloseTO time.Duration
	Block   time.Duration // handler block (wedged-drop)
	Gap     time.Duration // pause between Close / the failed Open and the next Open
}

type reopen struct {
	base
	sc       reopenScn
	dials    []time.Duration
	okDials  int
	refuse   int
	downAt   time.Duration // the peer became unreachable
	upAt     time.Duration // the dial that found the peer again
	phase    int
	finished bool
	script   string
	// close-while-a-re-dial-completes
	closeAt, closeRetAt time.Duration
	reconnAtClose       uint64
}

func buildReopen() core.BuildFunc {
	return func(w *core.World) *core.Scenario {
		t := w.T
		s := &reopen{upAt: -1, downAt: -1}
		s.w = w
		s.cutConn = map[*refhsms.Conn]bool{}
		s.active = true
		sc := reopenScn{History: t.Choose("scn", nHistories), Equip: t.Choose("scn", 2) == 1, N: 1 + t.Choose("scn", 4)}
		sc.Init = []time.Duration{20 * time.Millisecond, 100 * time.Millisecond, 5 * time.Millisecond}[t.Choose("scn", 3)]
		sc.T5 = []time.Duration{200 * time.Millisecond, 400 * time.Millisecond, 50 * time.Millisecond}[t.Choose("scn", 3)]
		sc.CloseTO = []time.Duration{100 * time.Millisecond, 300 * time.Millisecond}[t.Choose("scn", 2)]
		sc.Block = sc.CloseTO * time.Duration(2+t.Choose("scn", 3))
		sc.Gap = time.Duration(t.Choose("scn", 30)) * 10 * time.Millisecond
		s.sc = sc
		s.r = rig.New(w, rig.Opts{Active: true, Equip: sc.Equip, T3: 300 * time.Millisecond, T5: sc.T5, T6: 200 * time.Millisecond, T7: 400 * time.Millisecond, T8: 150 * time.Millisecond,
			Linktest: 100 * time.Millisecond, LinkThreshold: 1, BackoffInit: sc.Init, BackoffMult: 2, CloseTimeout: sc.CloseTO, ConnectTimeout: 300 * time.Millisecond, NoDataHandlers: true})
		r := s.r
		r.P.AutoSelectRsp = -1
		r.P.AutoLinktest = false
		r.P.AutoDeselectRsp = false
		blocked := false
		r.C.AddDataMessageHandler(func(m *hsms.DataMessage, ep hsms.SECS2Endpoint) {
			if sc.History == hWedgedDrop && !blocked && m.Stream() == 6 {
				blocked = true
				w.Fault("handler-blocks-past-close-timeout")
				core.Sleep(sc.Block)
			}
		})
		r.N.DialPlan = func(n int, address string) simnet.DialOutcome {
			s.dials = append(s.dials, w.Now())
			if s.refuse > 0 {
				s.refuse--
				w.Fault("dial-refused")

				return simnet.DialOutcome{Kind: 1}
			}
			if s.downAt >= 0 && s.upAt < 0 {
				s.upAt = w.Now()
				if sc.History == hCloseInDial {
					w.HoldAt["net.Dial.ret"] = 30 * time.Millisecond
					w.After(5*time.Millisecond, "app-close-into-the-dial", func() {
						w.Go("closer", func() {
							s.closeAt = w.Now()
							w.Fault("app-close")
							_ = r.C.Close()
							s.closeRetAt = w.Now()
							s.reconnAtClose = r.C.Metrics().Reconnects()
						})
					})
				}
			}
			s.okDials++

			return simnet.DialOutcome{}
		}
		r.P.OnOpen = func(c *refhsms.Conn) { s.conns = append(s.conns, c) }
		r.P.OnFrame = func(c *refhsms.Conn, f refhsms.RxFrame) {
			s.onFrame(c, f, func(c *refhsms.Conn, h refhsms.Header, body []byte) { c.SendFrame(h, body) })
		}
		w.AddMonitor(s.poll)
		w.Go("app", s.app)
		bound := time.Duration(sc.N+2)*(sc.T5+50*time.Millisecond) + sc.Init + sc.Block + 2*time.Second

		return &core.Scenario{
			Desc: map[string]any{"history": historyNames[sc.History], "equip": sc.Equip, "refusedDials": sc.N, "backoffInitial": sc.Init.String(), "T5": sc.T5.String(),
				"closeTimeout": sc.CloseTO.String(), "handlerBlock": sc.Block.String(), "gap": sc.Gap.String()},
			Horizon: 60 * time.Second,
			Done: func() bool {
				return (s.finished || (s.downAt >= 0 && w.Now() > s.downAt+bound+time.Second)) && w.Idle()
			},
			Final:      func(reason string) { s.final(reason, bound) },
			Cleanup:    func() { s.stop = true; r.Close() },
			Nontrivial: func() bool { return s.finished },
		}
	}
}

func (s *reopen) waitSelected(d time.Duration) bool {
	deadline := s.w.Now() + d
	for !s.stop && s.w.Now() < deadline {
		if s.r.Selected() {
			return true
		}
		core.Sleep(2 * time.Millisecond)
	}

	return false
}

func (s *reopen) trip() error {
	ctx, cancel := context.WithTimeout(context.Background(), 2*time.Second)
	defer cancel()
	rep, err := s.r.C.SendDataMessage(ctx, 1, 1, true, nil)
	if err == nil && rep == nil {
		err = fmt.Errorf("no reply")
	}

	return err
}

// app plays the history and then the common ending.
func (s *reopen) app() {
	w, r, sc := s.w, s.r, s.sc
	C := r.C
	fail := func(class, f string, a ...any) { w.Fail(class, f, a...) }
	switch sc.History {
	case hCloseReopen:
		if err := C.Open(context.Background(), hsms.OpenBackground); err != nil {
			fail("HARNESS", "first Open: %v", err)

			return
		}
		if !s.waitSelected(5*time.Second) || s.trip() != nil {
			fail("HARNESS", "no first session")

			return
		}
		_ = C.Close()
		core.Sleep(sc.Gap)
		s.refuse, s.downAt = sc.N, w.Now()
		s.script = "Open, Selected, Close, Open(background) with the peer down"
		if err := C.Open(context.Background(), hsms.OpenBackground); err != nil {
			fail("REOPEN", "Open(background) after Close against an unreachable peer returned %v (it should start retrying in the background)", err)

			return
		}
	case hFailedOpen:
		s.refuse = 1
		ctx, cancel := context.WithTimeout(context.Background(), 150*time.Millisecond)
		err := C.Open(ctx, hsms.OpenWaitSelected)
		cancel()
		if err == nil {
			fail("HARNESS", "Open(wait) against a refusing peer succeeded")

			return
		}
		core.Sleep(sc.Gap)
		s.refuse, s.downAt = sc.N, w.Now()
		s.script = "a failed Open(wait), then Open(background) with the peer still down"
		if err := C.Open(context.Background(), hsms.OpenBackground); err != nil {
			fail("REOPEN", "Open(background) after a failed Open returned %v", err)

			return
		}
	case hCloseInDial:
		if err := C.Open(context.Background(), hsms.OpenBackground); err != nil {
			fail("HARNESS", "first Open: %v", err)

			return
		}
		if !s.waitSelected(5*time.Second) || s.trip() != nil {
			fail("HARNESS", "no first session")

			return
		}
		c := s.conns[len(s.conns)-1]
		s.refuse, s.downAt = sc.N, w.Now()
		s.script = "Close called while the re-dial that finds the peer again is completing"
		w.Fault("rst")
		s.cutConn[c] = true
		c.L.RST()
		// wait for the Close (issued from the dial plan) and then watch the closed connection
		for i := 0; i < 5000 && s.closeRetAt == 0 && !s.stop; i++ {
			core.Sleep(2 * time.Millisecond)
		}
		core.Sleep(2*sc.T5 + 200*time.Millisecond)
		s.finished = true

		return
	case hWedgedDrop:
		if err := C.Open(context.Background(), hsms.OpenBackground); err != nil {
			fail("HARNESS", "first Open: %v", err)

			return
		}
		if !s.waitSelected(5*time.Second) || s.trip() != nil {
			fail("HARNESS", "no first session")

			return
		}
		c := s.conns[len(s.conns)-1]
		c.SendFrame(refhsms.DataHeader(0xFFFF, 6, 11, false, r.P.NextSys()), refhsms.ASCII("blocks the handler"))
		core.Sleep(10 * time.Millisecond)
		s.refuse, s.downAt = sc.N, w.Now()
		s.script = "the link is reset while a data handler is blocked for longer than the close timeout"
		w.Fault("rst")
		s.cutConn[c] = true
		c.L.RST()
	}
	// ---- common ending: the peer is reachable again after N refusals
	bound := time.Duration(sc.N+2)*(sc.T5+50*time.Millisecond) + sc.Init + sc.Block + 2*time.Second
	if !s.waitSelected(bound) {
		return // final() reports with the dial log
	}
	if err := s.trip(); err != nil {
		// one retry: the first trip may meet the tail of the history (e.g. a late handler)
		core.Sleep(20 * time.Millisecond)
		if !s.waitSelected(bound) || s.trip() != nil {
			fail("NO_RECOVERY", "%s: Selected again but the W-bit round trip fails: %v", s.script, err)

			return
		}
	}
	s.finished = true
}

func (s *reopen) final(reason string, bound time.Duration) {
	w, sc := s.w, s.sc
	if w.Viol != nil {
		return
	}
	var after []time.Duration
	for _, d := range s.dials {
		if s.downAt >= 0 && d >= s.downAt {
			after = append(after, d)
		}
	}
	if sc.History == hCloseInDial {
		if s.closeRetAt == 0 {
			w.Fail("BLOCKED", "%s: Close never returned (called at %v)", s.script, s.closeAt)

			return
		}
		for _, d := range s.dials {
			if d > s.closeRetAt {
				w.Fail("AFTER_CLOSE", "%s: a dial attempt at %v, after Close had returned at %v", s.script, d, s.closeRetAt)

				return
			}
		}
		for i, c := range s.conns {
			if c.L.A.ClosedAt < 0 {
				w.Fail("AFTER_CLOSE", "%s: connection #%d, whose dial completed while Close (called %v, returned %v) was in progress, is still held open by the library at %v — adopted by a connection that is closed", s.script, i+1, s.closeAt, s.closeRetAt, w.Now())

				return
			}
		}
		if got := s.r.C.Metrics().Reconnects(); got != s.reconnAtClose || got > 1 {
			w.Fail("RECONNECTS", "%s: Reconnects() was %d when Close returned and is %d now; nothing reconnects after Close", s.script, s.reconnAtClose, got)

			return
		}
		if st := s.r.C.State(); st != hsms.NotConnectedState {
			w.Fail("AFTER_CLOSE", "%s: State() = %v after Close", s.script, st)

			return
		}
		w.Probe("closed_cleanly_while_a_re_dial_completed")

		return
	}
	if !s.finished {
		w.Fail("NO_RECOVERY", "%s: no working Selected session within %v of the peer becoming unreachable at %v (state %v; %d dial attempts since, at %v; %d refusals were planned, the peer accepts every dial after them): the connection stopped trying",
			s.script, bound, s.downAt, s.r.C.State(), len(after), after, sc.N)

		return
	}
	// the dials never pause longer than T5 (+ slack for the teardown of a wedged generation)
	prev := s.downAt
	for i, d := range after {
		limit := sc.T5 + 20*time.Millisecond
		if i == 0 {
			limit += sc.Block + sc.CloseTO + sc.Gap
		}
		if d-prev > limit {
			w.Fail("BACKOFF", "%s: dial #%d came %v after the previous attempt; T5 is %v", s.script, i+1, d-prev, sc.T5)

			return
		}
		prev = d
	}
	if sc.History == hWedgedDrop {
		if got := s.r.C.Metrics().Reconnects(); got != 1 {
			w.Fail("RECONNECTS", "%s: one successful re-dial, Reconnects() = %d", s.script, got)

			return
		}
	}
	w.Probe("recovered_after_" + historyNames[sc.History])
}
