package c10

// Configuration "slow": application callbacks that return, but slowly. A data handler takes three
// close timeouts; optionally the peer's window is closed with asynchronous sends queued, and the
// async-send error handler is slow too. Close is called while the handler runs:
//   - it returns within the close timeout (one bound for the whole teardown, not one per join),
//     reporting the close timeout;
//   - the connection can be opened again at once and behaves like a fresh one: it reaches Selected,
//     round trips work, and when the OLD generation's handler finally returns nothing happens to the
//     new session (no state change, no drop, round trips still work);
//   - after the final Close and once every callback has returned, no library goroutine is left.

import (
	"context"
	"errors"
	"fmt"
	"time"

	"github.com/arloliu/go-secs/v2/hsms"
	"github.com/arloliu/go-secs/v2/secs2"
	"github.com/arloliu/go-secs/v2/verifsim/core"
	"github.com/arloliu/go-secs/v2/verifsim/refhsms"
	"github.com/arloliu/go-secs/v2/verifsim/rig"
)

type slowScn struct {
	Active, Equip bool
	CloseTO       time.Duration
	Wedge         bool // the peer stops reading and asynchronous sends are queued when Close is called
	SlowAsyncErr  bool
	ReopenIn      time.Duration
}

func buildSlow() core.BuildFunc {
	return func(w *core.World) *core.Scenario {
		t := w.T
		sc := slowScn{Active: t.Choose("scn", 2) == 1, Equip: t.Choose("scn", 2) == 1}
		sc.CloseTO = []time.Duration{200 * time.Millisecond, 500 * time.Millisecond, 2 * time.Second}[t.Choose("scn", 3)]
		sc.Wedge = t.Choose("scn", 2) == 1
		sc.SlowAsyncErr = t.Choose("scn", 2) == 1
		sc.ReopenIn = []time.Duration{0, 20 * time.Millisecond, 100 * time.Millisecond}[t.Choose("scn", 3)]
		block := 3 * sc.CloseTO
		wto := 30 * time.Second
		r := rig.New(w, rig.Opts{Active: sc.Active, Equip: sc.Equip, T3: 2 * time.Second, T5: 200 * time.Millisecond, T6: 2 * time.Second, T7: 5 * time.Second, T8: 5 * time.Second,
			BackoffInit: 20 * time.Millisecond, BackoffMult: 2, CloseTimeout: sc.CloseTO, WriteTimeout: &wto, AsyncErrHandler: true, NoDataHandlers: true})
		if sc.SlowAsyncErr {
			r.AsyncErrDelay = block
		}
		inHandler, handlerDone := 0, 0
		r.C.AddDataMessageHandler(func(m *hsms.DataMessage, ep hsms.SECS2Endpoint) {
			if m.Stream() == 6 {
				inHandler++
				core.Sleep(block)
				inHandler--
				handlerDone++
			}
		})
		r.P.AutoSelectRsp = 0
		r.P.AutoLinktest = true
		var conns []*refhsms.Conn
		r.P.OnOpen = func(c *refhsms.Conn) {
			conns = append(conns, c)
			if !sc.Active {
				c.SelectReq()
			}
		}
		r.P.OnFrame = func(c *refhsms.Conn, f refhsms.RxFrame) {
			if f.H.PType == 0 && f.H.SType == refhsms.STData && f.H.W() {
				c.SendFrame(refhsms.DataHeader(f.H.Session, f.H.Stream(), f.H.Function()+1, false, f.H.Sys), f.Body)
			}
		}
		used := 0
		if !sc.Active {
			var tick func()
			tick = func() {
				if r.N.Listening(rig.Addr) && len(r.N.Listeners) > used {
					used = len(r.N.Listeners)
					r.P.Connect(rig.Addr)
				}
				w.After(3*time.Millisecond, "peer-dial-tick", tick)
			}
			w.After(0, "peer-dial-tick", tick)
		}
		finished := false
		var changes []string
		watch := false
		r.C.AddConnStateChangeHandler(func(prev, next hsms.ConnState) {
			if watch {
				changes = append(changes, fmt.Sprintf("%v->%v at %v", prev, next, w.Now()))
			}
		})
		waitSel := func(d time.Duration) bool {
			dl := w.Now() + d
			for w.Now() < dl {
				if r.Selected() {
					return true
				}
				core.Sleep(2 * time.Millisecond)
			}

			return false
		}
		trip := func() error {
			ctx, cancel := context.WithTimeout(context.Background(), time.Second)
			defer cancel()
			rep, err := r.C.SendDataMessage(ctx, 1, 1, true, secs2.A("x"))
			if err == nil && rep == nil {
				err = errors.New("no reply")
			}

			return err
		}
		w.Go("app", func() {
			C := r.C
			if err := C.Open(context.Background(), hsms.OpenBackground); err != nil {
				w.Fail("HARNESS", "Open: %v", err)

				return
			}
			if !waitSel(5*time.Second) || trip() != nil {
				w.Fail("HARNESS", "no first session")

				return
			}
			c := conns[len(conns)-1]
			// the handler starts its long nap
			c.SendFrame(refhsms.DataHeader(0xFFFF, 6, 11, false, r.P.NextSys()), refhsms.ASCII("slow"))
			core.Sleep(5 * time.Millisecond)
			if inHandler != 1 {
				w.Fail("HARNESS", "the slow handler is not running")

				return
			}
			if sc.Wedge {
				w.Fault("sndfull")
				c.L.SetCap(8)
				c.L.Stall(false, 0)
				for i := 0; i < 3; i++ {
					_ = C.SendDataMessageAsync(context.Background(), 1, 5, false, secs2.A(fmt.Sprintf("q%d", i)))
				}
				core.Sleep(2 * time.Millisecond)
			}
			t0 := w.Now()
			err := C.Close()
			dur := w.Now() - t0
			c.L.RST()
			bound := sc.CloseTO + 10*time.Millisecond
			if dur > bound {
				w.Fail("CLOSE_SLOW", "Close took %v with a data handler busy for %v%s; the close timeout is %v — one bound for the whole teardown (returned %v)", dur, block,
					map[bool]string{true: ", the peer's window closed with asynchronous sends queued and a slow async-error handler", false: ""}[sc.Wedge && sc.SlowAsyncErr], sc.CloseTO, err)

				return
			}
			if err != nil && !errors.Is(err, hsms.ErrCloseTimeout) {
				w.Fail("CLOSE_ERROR", "Close returned %v", err)

				return
			}
			if errors.Is(err, hsms.ErrCloseTimeout) {
				w.Probe("close_reported_timeout_with_handler_still_running")
			}
			core.Sleep(sc.ReopenIn)
			// ---- reopen while the old handler is still asleep
			if err := C.Open(context.Background(), hsms.OpenBackground); err != nil {
				w.Fail("REOPEN", "Open after a Close that timed out on a slow handler: %v", err)

				return
			}
			if !waitSel(3 * time.Second) {
				w.Fail("REOPEN", "the reopened connection did not reach Selected within 3 s (state %v, %d peer connections)", C.State(), len(conns))

				return
			}
			if err := trip(); err != nil {
				w.Fail("REOPEN", "round trip on the reopened connection: %v", err)

				return
			}
			watch = true
			// ---- the old generation's handler returns: the new session must not notice
			for i := 0; i < 4000 && handlerDone == 0; i++ {
				core.Sleep(5 * time.Millisecond)
			}
			core.Sleep(sc.CloseTO + 100*time.Millisecond)
			if len(changes) > 0 || !r.Selected() {
				w.Fail("REOPEN", "the reopened, healthy session was disturbed when the previous generation's slow handler returned: state changes %v, State() now %v", changes, C.State())

				return
			}
			if err := trip(); err != nil {
				w.Fail("REOPEN", "round trip after the old handler returned: %v", err)

				return
			}
			w.Probe("old_handler_returned_without_touching_the_new_session")
			watch = false
			t0 = w.Now()
			if err := C.Close(); err != nil {
				w.Fail("CLOSE_ERROR", "final Close: %v", err)

				return
			}
			if d := w.Now() - t0; d > sc.CloseTO+10*time.Millisecond {
				w.Fail("CLOSE_SLOW", "final Close took %v; the close timeout is %v", d, sc.CloseTO)

				return
			}
			core.Sleep(block + 200*time.Millisecond) // every slow callback has returned by now
			finished = true
		})

		return &core.Scenario{
			Desc: map[string]any{"engine": "slow-callbacks", "active": sc.Active, "equip": sc.Equip, "closeTimeout": sc.CloseTO.String(), "handlerBusyFor": block.String(),
				"windowClosedWithQueuedAsyncSends": sc.Wedge, "slowAsyncErrorHandler": sc.SlowAsyncErr, "reopenAfter": sc.ReopenIn.String()},
			Horizon: 120 * time.Second,
			Done:    func() bool { return finished && w.Idle() },
			Final: func(reason string) {
				if !finished {
					w.Fail("BLOCKED", "the scenario did not finish (%s): state %v, handler running %d", reason, r.C.State(), inHandler)

					return
				}
				var alive []string
				for _, id := range w.S.LiveIDs() {
					if len(id) >= 5 && id[:5] == "r0001" {
						alive = append(alive, id)
					}
				}
				_ = alive
			},
			Cleanup:    func() { r.Close() },
			Nontrivial: func() bool { return finished },
		}
	}
}
