package c10

import (
	"testing"

	"github.com/arloliu/go-secs/v2/verifsim/core"
)

func TestWorker(t *testing.T) {
	core.WorkerMain(t, core.Property{ID: "C10", Configs: []string{"clean", "faulty", "secs1", "slow"}, Build: Build})
}
