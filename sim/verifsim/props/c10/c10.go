// Package c10 decides property C10: Open/Close are safe from any state — Close is bounded and
// idempotent and leaves no library goroutine, socket, listener or reconnect attempt behind; Open on
// an open connection fails with the already-open error and has no side effects; a closed
// connection can be reopened and behaves like a fresh one; no call panics or blocks beyond its
// documented bound.
package c10

import (
	"context"
	"errors"
	"fmt"
	"strings"
	"time"

	"github.com/arloliu/go-secs/v2/hsms"
	"github.com/arloliu/go-secs/v2/secs2"
	"github.com/arloliu/go-secs/v2/verifsim/core"
	"github.com/arloliu/go-secs/v2/verifsim/refe4"
	"github.com/arloliu/go-secs/v2/verifsim/refhsms"
	"github.com/arloliu/go-secs/v2/verifsim/rig"
	"github.com/arloliu/go-secs/v2/verifsim/simnet"
)

const (
	oOpenBG = iota
	oOpenWait
	oClose
	oSendW
	oSendAsync
	oUpdate
	oSleep
	nOps
)

var opNames = []string{"Open(bg)", "Open(wait)", "Close", "SendDataMessage(W)", "SendDataMessageAsync", "UpdateConfigOptions", "sleep"}

type op struct {
	Kind int
	Gap  time.Duration
	Arg  time.Duration
}

type call struct {
	G, I           int
	Kind           int
	Tick0          int
	Tick1          int
	T0, T1         time.Duration
	Done           bool
	Err            error
	Bound          time.Duration
	Dials0, Dials1 int
	State0, State1 hsms.ConnState
}

type peerFault struct {
	At   time.Duration
	Kind int // 0 fin, 1 rst, 2 silence (inbound stall), 3 wedge (outbound stall, small buffer)
}

type scenario struct {
	Active         bool
	Equip          bool
	CloseTO        time.Duration
	T3, T5, T6, T7 time.Duration
	Linktest       time.Duration
	ConnTO         time.Duration
	Scripts        [][]op
	Faults         []peerFault
	DialOut        []int // 0 ok, 1 refused, 2 blackhole, per attempt
	Handler        time.Duration
	PeerLag        time.Duration // passive: delay between the library listening and the peer connecting
}

type harness struct {
	w     *core.World
	sc    scenario
	C     hsms.Connection
	N     *simnet.Net
	secs1 bool
	// transport-specific peer plumbing
	links       []*simnet.Link // every connection a peer end was attached to
	connectPeer func()         // passive library end: a peer dials the listener now
	sendBound   time.Duration  // extra time a send may spend on the line (write timeout / E4 retries)

	calls                        []*call
	tick                         int
	running                      int
	maxCloseTO                   time.Duration
	scriptsDone                  int
	phase                        int // 0 scripts, 1 final sequence, 2 census, 3 done
	finalErr                     string
	faultsOff                    bool
	racers                       int
	lastRefusedAt                time.Duration
	racing                       int // extra Close calls (racers) in progress
	usedListeners                int
	seenListeners                int
	seenAt                       time.Duration
	censusAt                     time.Duration
	writeTO                      time.Duration
	noWriteBound                 bool
	dialsAtClose, listensAtClose int
	finalCloseRet                time.Duration
	stop                         bool
}

func genScenario(t *core.Tape, faulty bool) scenario {
	sc := scenario{}
	sc.Active = t.Choose("scn", 2) == 1
	sc.Equip = t.Choose("scn", 2) == 1
	sc.CloseTO = []time.Duration{500 * time.Millisecond, 2 * time.Second, 200 * time.Millisecond}[t.Choose("scn", 3)]
	sc.T3 = []time.Duration{300 * time.Millisecond, time.Second}[t.Choose("scn", 2)]
	sc.T5 = []time.Duration{200 * time.Millisecond, time.Second}[t.Choose("scn", 2)]
	sc.T6 = []time.Duration{200 * time.Millisecond, 600 * time.Millisecond}[t.Choose("scn", 2)]
	sc.T7 = []time.Duration{300 * time.Millisecond, time.Second}[t.Choose("scn", 2)]
	sc.Linktest = []time.Duration{0, 150 * time.Millisecond}[t.Choose("scn", 2)]
	sc.ConnTO = []time.Duration{250 * time.Millisecond, 0}[t.Choose("scn", 2)]
	if sc.ConnTO == 0 && faulty {
		// with black-holed dials a connect timeout is needed; half of the time far above the close
		// timeout, so that a Close which waited for a pending dial attempt would stand out
		sc.ConnTO = []time.Duration{400 * time.Millisecond, 3 * time.Second}[t.Choose("scn", 2)]
	}
	ng := 2 + t.Choose("scn", 3)
	for g := 0; g < ng; g++ {
		var ops []op
		n := 2 + t.Choose("scn", 7)
		for i := 0; i < n; i++ {
			o := op{Kind: t.Weighted("scn", 4, 2, 4, 3, 2, 2, 2), Gap: time.Duration(t.Choose("scn", 8)) * 25 * time.Millisecond}
			o.Arg = time.Duration(50+t.Choose("scn", 16)*50) * time.Millisecond
			ops = append(ops, o)
		}
		sc.Scripts = append(sc.Scripts, ops)
	}
	if faulty {
		nf := t.Choose("scn", 4)
		for i := 0; i < nf; i++ {
			sc.Faults = append(sc.Faults, peerFault{At: time.Duration(t.Choose("scn", 150)) * 10 * time.Millisecond, Kind: t.Choose("scn", 4)})
		}
		for i := 0; i < 10; i++ {
			sc.DialOut = append(sc.DialOut, t.Weighted("scn", 4, 4, 2))
		}
	}
	sc.Handler = []time.Duration{0, 10 * time.Millisecond, 50 * time.Millisecond}[t.Choose("scn", 3)]
	sc.PeerLag = []time.Duration{0, 3 * time.Millisecond, 250 * time.Millisecond, 2 * time.Second, 10 * time.Second}[t.Choose("scn", 5)]

	return sc
}

// Build returns the scenario builder ("clean": healthy peer; "faulty": drops, stalls, refusals).
func Build(config string) core.BuildFunc {
	if config == "slow" {
		return buildSlow()
	}

	return func(w *core.World) *core.Scenario {
		h := &harness{w: w}
		h.sc = genScenario(w.T, config != "clean")
		h.secs1 = config == "secs1"
		sc := h.sc
		h.maxCloseTO = sc.CloseTO
		h.writeTO = 400 * time.Millisecond
		if config == "faulty" && len(h.sc.Faults) > 0 && w.T.Choose("scn", 3) == 0 {
			h.sc.Faults[0].Kind = 3 // at least one closed peer window in such a run
			h.sc.Linktest = 0       // (a linktest probe caught in the closed window would make Close skip its courtesy Separate)
			// the documented way to disable the write bound: a send into a closed peer window then blocks
			// until the connection goes — but Close itself must stay bounded (its courtesy Separate has
			// a bound of its own)
			h.writeTO = 0
			h.noWriteBound = true
		}
		wto := h.writeTO
		if config == "secs1" {
			h.setupSECS1()
		} else {
			h.setupHSMS(wto)
		}
		h.N.DialPlan = func(n int, address string) simnet.DialOutcome {
			if h.faultsOff || n-1 >= len(sc.DialOut) {
				return simnet.DialOutcome{Latency: time.Duration(w.T.Choose("net", 3)) * time.Millisecond}
			}
			switch sc.DialOut[n-1] {
			case 1:
				w.Fault("dial-refused")
				// a Close aimed at the instant the reconnect loop wakes up for its next attempt (the gap
				// doubles, up to T5): the loop's fence checks and the Close's fence are then in flight together
				if h.lastRefusedAt > 0 && h.racers < 6 {
					gap := 2 * (w.Now() - h.lastRefusedAt)
					if gap > sc.T5 {
						gap = sc.T5
					}
					if gap > 0 && gap <= sc.T5 {
						h.racers++
						w.After(gap, "close-at-reconnect-wakeup", func() {
							if h.faultsOff || h.stop {
								return
							}
							w.Probe("close_at_reconnect_wakeup")
							h.racing++
							w.Go("racer", func() {
								defer func() { h.racing-- }()
								if h.faultsOff || h.stop {
									return
								}
								c := h.begin(98, len(h.calls), oClose, 0)
								err := h.C.Close()
								c.Bound = h.closeBound()
								h.end(c, err)
							})
						})
					}
				}
				h.lastRefusedAt = w.Now()

				return simnet.DialOutcome{Kind: 1}
			case 2:
				w.Fault("dial-blackhole")

				return simnet.DialOutcome{Kind: 2}
			}

			h.lastRefusedAt = 0
			lat := time.Duration(w.T.Choose("net", 20)) * time.Millisecond
			if config != "clean" && w.T.Choose("net", 3) == 0 && h.racers < 2 {
				// a Close crossing a dial that has just completed: the dialing goroutine is held with the
				// established connection in hand while an extra Close runs to completion
				h.racers++
				hold := time.Duration(3+w.T.Choose("net", 30)) * time.Millisecond
				w.HoldAt["net.Dial.ret"] = hold
				at := lat + time.Duration(w.T.Choose("net", int(hold/time.Millisecond)))*time.Millisecond
				w.After(at, "close-crossing-dial", func() {
					if h.faultsOff || h.stop {
						return
					}
					h.racing++
					w.Go("racer", func() {
						defer func() { h.racing-- }()
						if h.faultsOff || h.stop {
							return
						}
						c := h.begin(98, len(h.calls), oClose, 0)
						err := h.C.Close()
						c.Bound = h.closeBound()
						h.end(c, err)
					})
				})
			}

			return simnet.DialOutcome{Latency: lat}
		}
		for _, f := range sc.Faults {
			f := f
			w.After(f.At, "peer-fault", func() {
				l := h.liveLink()
				if l == nil || h.faultsOff {
					return
				}
				switch f.Kind {
				case 0:
					w.Fault("fin")
					l.FIN()
				case 1:
					w.Fault("rst")
					l.RST()
				case 2:
					w.Fault("silence")
					l.Stall(true, 0)
				case 3:
					w.Fault("sndfull")
					l.SetCap(48)
					if h.noWriteBound {
						l.SetCap(8) // smaller than any frame: the very next write blocks
						// nothing bounds a write: the window opens again by itself (a send blocked on it is
						// legitimately stuck until then)
						l.Stall(false, time.Duration(1+w.T.Choose("net", 3))*time.Second)
						// ... and a Close arrives while it is shut: its courtesy Separate must not wait for it
						w.After(time.Duration(2+w.T.Choose("net", 8)*5)*time.Millisecond, "close-into-closed-window", func() {
							if h.faultsOff || h.stop {
								return
							}
							h.racing++
							w.Go("racer", func() {
								defer func() { h.racing-- }()
								if h.faultsOff || h.stop {
									return
								}
								c := h.begin(98, len(h.calls), oClose, 0)
								w.Probe(fmt.Sprintf("close_into_closed_window_from_%v", h.C.State()))
								err := h.C.Close()
								c.Bound = h.closeBound()
								h.end(c, err)
							})
						})
					} else {
						l.Stall(false, 0)
					}
				}
			})
		}
		if !sc.Active {
			h.peerDialLoop()
		}
		w.AddMonitor(h.monitor)
		for g, ops := range sc.Scripts {
			g, ops := g, ops
			h.running++
			w.Go(fmt.Sprintf("app%d", g), func() { h.script(g, ops) })
		}

		return &core.Scenario{
			Desc:       h.describe(),
			Horizon:    120 * time.Second,
			Done:       func() bool { return h.phase == 3 && w.Idle() },
			Final:      h.final,
			Cleanup:    func() { h.stop = true; _ = h.C.Close() },
			Nontrivial: func() bool { return len(h.calls) >= 4 },
		}
	}
}

func (h *harness) describe() map[string]any {
	sc := h.sc
	var scripts [][]string
	for _, ops := range sc.Scripts {
		var s []string
		for _, o := range ops {
			s = append(s, opNames[o.Kind])
		}
		scripts = append(scripts, s)
	}

	return map[string]any{"active": sc.Active, "equip": sc.Equip, "closeTimeout": sc.CloseTO.String(), "T3": sc.T3.String(), "T5": sc.T5.String(), "T6": sc.T6.String(), "T7": sc.T7.String(),
		"linktest": sc.Linktest.String(), "connectTimeout": sc.ConnTO.String(), "scripts": scripts, "peerFaults": len(sc.Faults), "dialOutcomes": sc.DialOut, "handlerDelay": sc.Handler.String(), "peerLag": sc.PeerLag.String()}
}

func (h *harness) peerDialLoop() {
	w := h.w
	var tick func()
	tick = func() {
		if h.stop || h.phase >= 2 {
			return
		}
		// one connection per listener, PeerLag after the library started listening (1 ms once the
		// finale has declared the peer healthy)
		if n := len(h.N.Listeners); n > h.seenListeners {
			h.seenListeners, h.seenAt = n, w.Now()
		}
		lag := h.sc.PeerLag
		if h.faultsOff {
			lag = time.Millisecond
		}
		if h.N.Listening(rig.Addr) && h.seenListeners > h.usedListeners && w.Now() >= h.seenAt+lag {
			h.usedListeners = h.seenListeners
			h.connectPeer()
		}
		w.After(5*time.Millisecond, "peer-dial-tick", tick)
	}
	w.After(0, "peer-dial-tick", tick)
}

// connectNow: a peer connecting at the very instant of a Close (late-accept window).
func (h *harness) connectNow() {
	if h.sc.Active {
		return
	}
	if h.liveLink() != nil {
		return
	}
	if h.N.Listening(rig.Addr) {
		h.w.Probe("peer_connect_at_close")
		h.seenListeners = len(h.N.Listeners)
		h.usedListeners = h.seenListeners
		h.connectPeer()
	}
}

func (h *harness) begin(g, i, kind int, bound time.Duration) *call {
	h.tick++
	c := &call{G: g, I: i, Kind: kind, Tick0: h.tick, T0: h.w.Now(), Bound: bound, Dials0: h.N.Dials + h.N.Listens, State0: h.C.State()}
	h.calls = append(h.calls, c)
	h.w.Logf("op app%d#%d %s start", g, i, opNames[kind])

	return c
}

func (h *harness) end(c *call, err error) {
	h.tick++
	c.Tick1, c.T1, c.Err, c.Done = h.tick, h.w.Now(), err, true
	c.Dials1, c.State1 = h.N.Dials+h.N.Listens, h.C.State()
	h.w.Logf("op app%d#%d %s end err=%v", c.G, c.I, opNames[c.Kind], err)
}

func (h *harness) closeBound() time.Duration {
	// the documented bound: the close timeout; the courtesy Separate adds at most its own 500 ms
	// write bound when the peer's window is closed (a fault the harness injects knowingly)
	b := h.maxCloseTO + 10*time.Millisecond
	if h.w.Faults["sndfull"] > 0 {
		b += 500 * time.Millisecond
	}

	return b
}

func (h *harness) doOp(g, i int, o op) {
	C := h.C
	w := h.w
	switch o.Kind {
	case oOpenBG:
		b := 10 * time.Millisecond
		if h.sc.Active {
			b += h.sc.ConnTO + 20*time.Millisecond
		}
		c := h.begin(g, i, o.Kind, b)
		h.end(c, C.Open(context.Background(), hsms.OpenBackground))
	case oOpenWait:
		ctx, cancel := context.WithTimeout(context.Background(), o.Arg)
		b := o.Arg + 10*time.Millisecond
		if h.sc.Active {
			b += h.sc.ConnTO + 20*time.Millisecond
		}
		c := h.begin(g, i, o.Kind, b)
		err := C.Open(ctx, hsms.OpenWaitSelected)
		cancel()
		h.end(c, err)
	case oClose:
		c := h.begin(g, i, o.Kind, 0)
		if w.T.Choose("app", 4) != 0 {
			h.connectNow()
		}
		err := C.Close()
		c.Bound = h.closeBound()
		h.end(c, err)
	case oSendW:
		ctx, cancel := context.WithTimeout(context.Background(), o.Arg)
		c := h.begin(g, i, o.Kind, o.Arg+h.sc.T3+h.sendBound+10*time.Millisecond)
		if h.noWriteBound {
			c.Bound = 0 // no bound while the peer's window may be closed
		}
		_, err := C.SendDataMessage(ctx, 1, 1, true, secs2.A(fmt.Sprintf("m%d-%d", g, i)))
		cancel()
		h.end(c, err)
	case oSendAsync:
		ctx, cancel := context.WithTimeout(context.Background(), o.Arg)
		c := h.begin(g, i, o.Kind, o.Arg+10*time.Millisecond)
		err := C.SendDataMessageAsync(ctx, 1, 3, false, secs2.A(fmt.Sprintf("a%d-%d", g, i)))
		cancel()
		h.end(c, err)
	case oUpdate:
		c := h.begin(g, i, o.Kind, 10*time.Millisecond)
		var err error
		switch w.T.Choose("app", 4) {
		case 0:
			ct := []time.Duration{300 * time.Millisecond, time.Second}[w.T.Choose("app", 2)]
			if ct > h.maxCloseTO {
				h.maxCloseTO = ct
			}
			err = C.UpdateConfigOptions(hsms.WithCloseTimeout(ct))
		case 1:
			err = C.UpdateConfigOptions(hsms.WithT3(h.sc.T3), hsms.WithT6(h.sc.T6))
		case 2:
			err = C.UpdateConfigOptions(hsms.WithLinktestInterval([]time.Duration{0, 100 * time.Millisecond}[w.T.Choose("app", 2)]))
		default:
			err = C.UpdateConfigOptions(hsms.WithT7(h.sc.T7))
		}
		h.end(c, err)
		if err != nil {
			w.Fail("UPDATE", "UpdateConfigOptions with valid options failed: %v", err)
		}
	case oSleep:
		core.Sleep(o.Arg)
	}
}

func (h *harness) script(g int, ops []op) {
	defer func() {
		h.running--
		h.scriptsDone++
		if h.running == 0 {
			h.w.Go("finale", h.finale)
		}
	}()
	for i, o := range ops {
		if o.Gap > 0 {
			core.Sleep(o.Gap)
		}
		if h.w.Stopped() {
			return
		}
		h.doOp(g, i, o)
	}
}

// finale: with a healthy peer from now on, every history ends with
//
//	Open (already open, or a fresh open) -> Selected + round trip      [whatever happened before,
//	     an open connection must still be trying and must get there: no lifecycle call may have
//	     killed the reconnect machinery as a side effect]
//	Open again -> already-open error, no side effects
//	Close -> Open -> Selected + round trip                              [reopen behaves like new]
//	Close -> Close (idempotent) -> census.
func (h *harness) finale() {
	w, C := h.w, h.C
	h.phase = 1
	h.faultsOff = true
	for h.racing > 0 {
		core.Sleep(time.Millisecond) // an extra Close still in progress belongs to the history
	}
	// a connection wedged or silenced by an earlier fault is given back to a healthy network
	if w.Faults["silence"] > 0 || w.Faults["sndfull"] > 0 {
		for _, l := range h.links {
			if l.Closed || l.A == nil || !l.A.Handed || l.A.ClosedAt >= 0 {
				continue
			}
			l.RST()
			for i := 0; i < 400 && l.A.ClosedAt < 0; i++ {
				core.Sleep(5 * time.Millisecond) // until the library has dropped the reset connection
			}
		}
	}
	step := func(kind int, bound time.Duration, f func() error) error {
		c := h.begin(99, len(h.calls), kind, bound)
		err := f()
		if kind == oClose {
			c.Bound = h.closeBound()
		}
		h.end(c, err)

		return err
	}
	fail := func(format string, args ...any) {
		if h.finalErr == "" {
			h.finalErr = fmt.Sprintf(format, args...)
		}
	}
	recoverBound := 3*time.Second + 2*h.sc.T5 + h.sc.T7 + h.sc.ConnTO
	reach := func(what string) bool {
		// A fault injected just before the finale may still be taking effect, so a first round trip
		// can legitimately hit the dying connection; what is demanded is a working session within the
		// recovery bound.
		deadline := w.Now() + recoverBound
		var lastErr error
		for w.Now() < deadline {
			if C.State() != hsms.SelectedState {
				core.Sleep(5 * time.Millisecond)

				continue
			}
			lastErr = step(oSendW, h.sc.T3+h.sendBound+10*time.Millisecond, func() error {
				rep, err := C.SendDataMessage(context.Background(), 2, 1, true, secs2.A("trip"))
				if err == nil && rep == nil {
					return errors.New("nil reply")
				}

				return err
			})
			if lastErr == nil {
				return true
			}
			core.Sleep(5 * time.Millisecond)
		}
		fail("%s: no working Selected session within %v although the peer is healthy and reachable (state %v, last round-trip error %v, %d dials, %d listens, Reconnecting()=%d)",
			what, recoverBound, C.State(), lastErr, h.N.Dials, h.N.Listens, C.Metrics().Reconnecting())

		return false
	}
	openB := h.sc.ConnTO + 30*time.Millisecond
	if err := step(oOpenBG, openB, func() error { return C.Open(context.Background(), hsms.OpenBackground) }); err != nil && !errors.Is(err, hsms.ErrAlreadyOpen) {
		fail("Open at the end of the history failed: %v", err)
	}
	if h.finalErr == "" && reach("the connection left open (or reopened) by the history") {
		// Open on an open connection: the already-open error, no side effects
		d0, s0 := h.N.Dials+h.N.Listens, C.State()
		if err := step(oOpenBG, 10*time.Millisecond, func() error { return C.Open(context.Background(), hsms.OpenBackground) }); !errors.Is(err, hsms.ErrAlreadyOpen) {
			fail("Open on an open, Selected connection returned %v, want the already-open error", err)
		}
		if d1, s1 := h.N.Dials+h.N.Listens, C.State(); d1 != d0 || s1 != s0 {
			fail("Open on an open connection had side effects: dial/listen attempts %d->%d, state %v->%v", d0, d1, s0, s1)
		}
	}
	_ = step(oClose, 0, C.Close)
	if err := step(oOpenBG, openB, func() error { return C.Open(context.Background(), hsms.OpenBackground) }); err != nil {
		fail("Open after Close failed: %v", err)
	} else {
		reach("the reopened connection")
	}
	e1 := step(oClose, 0, C.Close)
	h.finalCloseRet = w.Now()
	h.dialsAtClose, h.listensAtClose = h.N.Dials, h.N.Listens
	e2 := step(oClose, 0, C.Close)
	if (e1 == nil) != (e2 == nil) || (e1 != nil && e1.Error() != e2.Error()) {
		fail("Close is not idempotent: first returned %v, second %v", e1, e2)
	}
	h.phase = 2
	h.censusAt = w.Now() + 2*h.sc.T5 + 100*time.Millisecond
	w.After(2*h.sc.T5+101*time.Millisecond, "census", func() {})
}

func (h *harness) monitor() {
	if h.phase == 2 && h.censusAt > 0 && h.w.Now() >= h.censusAt {
		h.phase = 3
	}
	if h.phase == 2 && h.censusAt == 0 {
		h.phase = 3
	}
	// a call beyond its bound is reported as soon as it happens (the run need not wait for the horizon)
	for _, c := range h.calls {
		if !c.Done && c.Bound > 0 && h.w.Now() > c.T0+c.Bound+30*time.Second {
			h.w.Fail("BLOCKED", "%s (app%d#%d) started at %v has not returned after %v; its documented bound is %v", opNames[c.Kind], c.G, c.I, c.T0, h.w.Now()-c.T0, c.Bound)

			return
		}
	}
}

// ---- oracle

// open-state model for the lifecycle history: 0 never opened, 1 open, 2 closed.
func applyOp(st int, c *call) (int, bool) {
	switch c.Kind {
	case oOpenBG, oOpenWait:
		switch {
		case errors.Is(c.Err, hsms.ErrAlreadyOpen):
			return st, st == 1
		case c.Err == nil:
			return 1, st != 1
		case strings.Contains(c.Err.Error(), "dial ") || strings.Contains(c.Err.Error(), "listen "):
			// the transport could not start (refused, black-holed until the connect timeout, address in
			// use): Open rolled back
			return 2, st != 1
		case errors.Is(c.Err, context.DeadlineExceeded), errors.Is(c.Err, context.Canceled), errors.Is(c.Err, hsms.ErrConnClosed):
			// the wait failed after the lifecycle was started: the connection stays open (must be closed by the caller)
			return 1, st != 1
		default:
			// dial / listen failure: Open rolled back
			return 2, st != 1
		}
	case oClose:
		if errors.Is(c.Err, hsms.ErrNotOpen) {
			return st, st == 0
		}
		if st == 0 {
			return st, false
		}

		return 2, true
	}

	return st, true
}

// linearizable searches for an order of the lifecycle calls, consistent with real time (call A
// before call B if A returned before B was invoked), under which every result is legal.
func linearizable(calls []*call) bool {
	n := len(calls)
	used := make([]bool, n)
	var rec func(st, done int) bool
	rec = func(st, done int) bool {
		if done == n {
			return true
		}
		for i, c := range calls {
			if used[i] {
				continue
			}
			// c can go next only if no unused call returned before c was invoked
			ok := true
			for j, d := range calls {
				if !used[j] && j != i && d.Tick1 < c.Tick0 {
					ok = false

					break
				}
			}
			if !ok {
				continue
			}
			if ns, legal := applyOp(st, c); legal {
				used[i] = true
				if rec(ns, done+1) {
					return true
				}
				used[i] = false
			}
		}

		return false
	}

	return rec(0, 0)
}

func (h *harness) final(reason string) {
	w := h.w
	for _, c := range h.calls {
		if !c.Done {
			w.Fail("BLOCKED", "%s (app%d#%d) started at %v never returned (run ended: %s at %v)", opNames[c.Kind], c.G, c.I, c.T0, reason, w.Now())

			return
		}
	}
	if h.phase != 3 {
		w.Fail("BLOCKED", "the final sequence did not complete (phase %d, reason %s)", h.phase, reason)

		return
	}
	// ---- (5) bounds. Open and Close are serialized with each other, so a lifecycle call may also
	// have waited for the lifecycle calls it overlapped.
	isLife := func(c *call) bool { return c.Kind == oOpenBG || c.Kind == oOpenWait || c.Kind == oClose }
	deferred := ""
	defer func() {
		if deferred != "" && w.Viol == nil {
			w.Fail("CLOSE_SLOW", "%s", deferred)
		}
	}()
	for _, c := range h.calls {
		if c.Kind == oClose && errors.Is(c.Err, hsms.ErrCloseTimeout) {
			w.Fail("CLOSE_TIMEOUT", "Close (app%d#%d) reported a close timeout although every handler returns within %v (close timeout %v)", c.G, c.I, h.sc.Handler, h.maxCloseTO)

			return
		}
		if c.Bound <= 0 {
			continue
		}
		dur := c.T1 - c.T0
		if dur <= c.Bound {
			continue
		}
		if !isLife(c) {
			w.Fail("SLOW", "%s (app%d#%d) took %v; its documented bound is %v", opNames[c.Kind], c.G, c.I, dur, c.Bound)

			return
		}
		var behindClose, behindOpen time.Duration
		dialing := false
		for _, d := range h.calls {
			if d == c || !isLife(d) || !(d.Tick0 < c.Tick1 && d.Tick1 > c.Tick0) {
				continue
			}
			if d.Kind == oClose {
				// Close calls are serialized: c may have queued behind the ones that finished before it,
				// each for no longer than that call itself took and no longer than a healthy Close takes
				// (an Open released by a Close's unlock may be logged as returning before that Close does:
				// for an Open the instant decides, not the order inside it)
				if d.Tick1 < c.Tick1 || (c.Kind != oClose && d.T1 <= c.T1) {
					dd := d.T1 - d.T0
					if cb := h.closeBound(); dd > cb {
						dd = cb
					}
					behindClose += dd
				}
			} else {
				behindOpen += d.Bound
				if h.sc.Active {
					dialing = true
				}
			}
		}
		switch {
		case c.Kind != oClose && dur <= c.Bound+behindClose+behindOpen:
			w.Probe("open_waited_for_concurrent_lifecycle_call")
		case c.Kind == oClose && dur <= c.Bound+behindClose:
			w.Probe("close_waited_for_concurrent_close")
		case c.Kind == oClose && dialing && dur <= c.Bound+behindClose+behindOpen:
			// recorded defect (known-findings.json): reported only if nothing else is wrong with this run
			if deferred == "" {
				deferred = fmt.Sprintf("Close (app%d#%d) took %v with close timeout %v: it was serialized behind a concurrent Open that was inside its synchronous dial (connect timeout %v)", c.G, c.I, dur, h.maxCloseTO, h.sc.ConnTO)
			}
		case c.Kind == oClose:
			w.Fail("CLOSE_SLOW", "Close (app%d#%d) took %v; the close timeout is %v (bound %v, overlapping Close calls explain %v, handler delay %v)", c.G, c.I, dur, h.maxCloseTO, c.Bound, behindClose, h.sc.Handler)

			return
		default:
			w.Fail("SLOW", "%s (app%d#%d) took %v; its bound is %v (+%v for the lifecycle calls it overlapped)", opNames[c.Kind], c.G, c.I, dur, c.Bound, behindClose+behindOpen)

			return
		}
	}
	// ---- (1)(3) lifecycle results form a legal sequential history
	var life []*call
	for _, c := range h.calls {
		if c.Kind == oOpenBG || c.Kind == oOpenWait || c.Kind == oClose {
			life = append(life, c)
		}
	}
	if len(life) <= 14 && !linearizable(life) {
		var s []string
		for _, c := range life {
			s = append(s, fmt.Sprintf("%s[%d..%d]=%v", opNames[c.Kind], c.Tick0, c.Tick1, c.Err))
		}
		w.Fail("LIFECYCLE", "the results of the Open/Close calls admit no sequential explanation: %s", strings.Join(s, "; "))

		return
	}
	if h.finalErr != "" {
		w.Fail("REOPEN", "%s", h.finalErr)

		return
	}
	// ---- (2) census after the last Close
	if h.N.Dials != h.dialsAtClose || h.N.Listens != h.listensAtClose {
		w.Fail("AFTER_CLOSE", "dial/listen attempts after the final Close returned: dials %d->%d, listens %d->%d", h.dialsAtClose, h.N.Dials, h.listensAtClose, h.N.Listens)

		return
	}
	for _, c := range h.N.Conns {
		if c.Handed && !c.IsClosed() {
			w.Fail("SOCKET_LEAK", "connection #%d handed to the library was never closed by it (after the final Close)", c.ID())

			return
		}
	}
	for i, ln := range h.N.Listeners {
		if !ln.Closed() {
			w.Fail("SOCKET_LEAK", "listener #%d was never closed (after the final Close)", i+1)

			return
		}
	}
	if ids := w.S.LiveIDs(); len(ids) > 0 {
		w.Fail("GOROUTINE_LEAK", "goroutines still alive %v after the final Close returned: %v", w.Now()-h.finalCloseRet, ids)

		return
	}
	if st := h.C.State(); st != hsms.NotConnectedState {
		w.Fail("AFTER_CLOSE", "State() = %v after the final Close", st)
	}
}

// liveLink returns the newest peer link that is up and that the library has not closed.
func (h *harness) liveLink() *simnet.Link {
	for i := len(h.links) - 1; i >= 0; i-- {
		l := h.links[i]
		if !l.Closed && l.A != nil && l.A.ClosedAt < 0 && l.ToLib().FinDeliveredAt() < 0 && l.ToPeer().FinDeliveredAt() < 0 {
			return l
		}

		return nil
	}

	return nil
}

func (h *harness) setupHSMS(wto time.Duration) {
	w, sc := h.w, h.sc
	r := rig.New(w, rig.Opts{Active: sc.Active, Equip: sc.Equip, T3: sc.T3, T5: sc.T5, T6: sc.T6, T7: sc.T7, T8: 300 * time.Millisecond, Linktest: sc.Linktest, LinkThreshold: 1,
		BackoffInit: 20 * time.Millisecond, BackoffMult: 2, CloseTimeout: sc.CloseTO, ConnectTimeout: sc.ConnTO, WriteTimeout: &wto})
	h.C, h.N = r.C, r.N
	h.sendBound = wto
	r.HandlerDelay = sc.Handler
	r.P.AutoSelectRsp = 0
	r.P.AutoLinktest = true
	r.P.OnOpen = func(c *refhsms.Conn) {
		h.links = append(h.links, c.L)
		if !sc.Active {
			c.SelectReq()
		}
		// an unsolicited primary now and then, so that data handlers run (and hold the receive path)
		if w.T.Choose("peer", 2) == 0 {
			w.After(time.Duration(5+w.T.Choose("peer", 40))*time.Millisecond, "peer-primary", func() {
				if c.Alive() {
					c.SendFrame(refhsms.DataHeader(0xFFFF, 6, 11, false, r.P.NextSys()), refhsms.ASCII("evt"))
				}
			})
		}
	}
	r.P.OnFrame = func(c *refhsms.Conn, f refhsms.RxFrame) {
		if f.H.PType == 0 && f.H.SType == refhsms.STData && f.H.W() {
			c.SendFrame(refhsms.DataHeader(f.H.Session, f.H.Stream(), f.H.Function()+1, false, f.H.Sys), f.Body)
		}
	}
	h.connectPeer = func() { r.P.Connect(rig.Addr) }
}

// setupSECS1: the same lifecycle histories over the SECS-I transport against the SEMI E4
// reference peer (it grants the line, acknowledges blocks, answers W-bit primaries, and sends an
// unsolicited single-block message now and then).
func (h *harness) setupSECS1() {
	w, sc := h.w, h.sc
	const (
		t1 = 40 * time.Millisecond
		t2 = 100 * time.Millisecond
	)
	device := uint16(w.T.Choose("scn", 32768))
	r := rig.NewSECS1(w, rig.Opts1{Active: sc.Active, Equip: sc.Equip, Device: device, T1: t1, T2: t2, T3: sc.T3, T4: time.Second, T5: sc.T5, Retry: 1,
		BackoffInit: 20 * time.Millisecond, BackoffMult: 2, CloseTimeout: sc.CloseTO, ConnectTimeout: sc.ConnTO})
	h.C, h.N = r.C, r.N
	h.sendBound = 2*t2*2 + 50*time.Millisecond // (retry limit + 1) attempts of one block, each up to two T2 waits
	if sc.Handler > 0 {
		r.OnDeliver = func(m *hsms.DataMessage, ep hsms.SECS2Endpoint) { core.Sleep(sc.Handler) }
	}
	sys := uint32(0x70000000)
	mkPeer := func() *refe4.Peer {
		p := refe4.New(w, !sc.Equip, t1, t2)
		p.OnBlock = func(b refe4.RxBlock) {
			if b.Valid && b.H.E && b.H.W {
				rh := refe4.Header{Device: device, R: !b.H.R, Stream: b.H.Stream, Func: b.H.Func + 1, Num: 1, E: true, Sys: b.H.Sys}
				p.SendBlock(refe4.Wire(rh, []byte{0x21, 0x01, 0x00}), nil, nil, nil)
			}
		}
		if w.T.Choose("peer", 2) == 0 {
			w.After(time.Duration(5+w.T.Choose("peer", 40))*time.Millisecond, "peer-primary", func() {
				if !p.Dead && p.L != nil {
					sys++
					eh := refe4.Header{Device: device, R: !sc.Equip, Stream: 6, Func: 11, Num: 1, E: true, Sys: sys}
					p.SendBlock(refe4.Wire(eh, []byte{0x41, 0x03, 'e', 'v', 't'}), nil, nil, nil)
				}
			})
		}

		if w.T.Choose("peer", 3) == 0 {
			// a damaged block (the library drains the line until it has been silent for T1 before it
			// answers NAK) and, inside or just after that drain, the end of the connection
			w.After(time.Duration(5+w.T.Choose("peer", 200))*time.Millisecond, "peer-bad-block", func() {
				if p.Dead || p.L == nil {
					return
				}
				sys++
				bh := refe4.Header{Device: device, R: !sc.Equip, Stream: 6, Func: 11, Num: 1, E: true, Sys: sys}
				raw := refe4.Wire(bh, []byte{0x41, 0x03, 'b', 'a', 'd'})
				raw[len(raw)-1] ^= 0x5A
				w.Fault("bad-checksum-block")
				p.SendBlock(raw, nil, nil, nil)
				if how := w.T.Choose("peer", 3); how != 0 {
					l := p.L
					w.After(time.Duration(3+w.T.Choose("peer", 45))*time.Millisecond, "peer-ends-in-the-drain", func() {
						if how == 1 {
							w.Fault("fin")
							l.FIN()
						} else {
							w.Fault("rst")
							l.RST()
						}
					})
				}
			})
		}

		return p
	}
	h.N.OnConnect = func(l *simnet.Link) simnet.RawEnd {
		p := mkPeer()
		p.L = l
		h.links = append(h.links, l)

		return p
	}
	h.connectPeer = func() {
		p := mkPeer()
		if l := h.N.PeerConnect(rig.Addr, p); l != nil {
			p.L = l
			h.links = append(h.links, l)
		}
	}
}
