package smoke

import (
	"context"
	"fmt"
	"testing"
	"time"

	"github.com/arloliu/go-secs/v2/hsms"
	"github.com/arloliu/go-secs/v2/hsmsss"
	"github.com/arloliu/go-secs/v2/secs2"
	"github.com/arloliu/go-secs/v2/verifsim/core"
	"github.com/arloliu/go-secs/v2/verifsim/simnet"
)

func build(config string) core.BuildFunc {
	return func(w *core.World) *core.Scenario {
		n := simnet.New(w)
		n.LatMin = time.Millisecond
		n.Seg = func(p *simnet.Pipe, sz int) []simnet.SegPlan {
			if sz > 1 && w.T.Bias("net", 1, 3) {
				k := 1 + w.T.Choose("net", sz-1)
				return []simnet.SegPlan{{Size: k, Delay: time.Millisecond}, {Size: sz - k, Delay: time.Duration(w.T.Choose("net", 3)) * time.Millisecond}}
			}
			return []simnet.SegPlan{{Size: sz, Delay: time.Millisecond}}
		}
		lg := core.NewLogger(w)
		pc, err := hsmsss.NewConfig("sim", 5000, hsmsss.WithPassive(), hsmsss.WithListener(n.Listen), hsmsss.WithEquipRole(),
			hsmsss.WithConnectionOption(hsms.WithLogger(lg)), hsmsss.WithConnectionOption(hsms.WithLinktestInterval(5*time.Second)))
		if err != nil {
			panic(err)
		}
		ac, err := hsmsss.NewConfig("sim", 5000, hsmsss.WithActive(), hsmsss.WithDialer(n.Dial), hsmsss.WithHostRole(),
			hsmsss.WithConnectionOption(hsms.WithLogger(lg)), hsmsss.WithConnectionOption(hsms.WithLinktestInterval(3*time.Second)))
		if err != nil {
			panic(err)
		}
		pas, err := hsmsss.New(pc)
		if err != nil {
			panic(err)
		}
		act, err := hsmsss.New(ac)
		if err != nil {
			panic(err)
		}
		pas.AddDataMessageHandler(func(m *hsms.DataMessage, ep hsms.SECS2Endpoint) {
			if m.WaitBit() {
				it, _ := m.Item(); _ = ep.ReplyDataMessage(context.Background(), m, it)
			}
		})
		act.AddDataMessageHandler(func(m *hsms.DataMessage, ep hsms.SECS2Endpoint) {
			if m.WaitBit() {
				it, _ := m.Item(); _ = ep.ReplyDataMessage(context.Background(), m, it)
			}
		})
		done := 0
		total := 0
		okc := 0
		w.Go("open-passive", func() {
			if err := pas.Open(context.Background(), hsms.OpenBackground); err != nil {
				w.Fail("SMOKE", "passive open: %v", err)
			}
			w.Go("open-active", func() {
				if err := act.Open(context.Background(), hsms.OpenWaitSelected); err != nil {
					w.Fail("SMOKE", "active open: %v", err)
					return
				}
				for c := 0; c < 4; c++ {
					total++
					conn := hsms.Connection(act)
					if c%2 == 1 {
						conn = pas
					}
					c := c
					w.Go(fmt.Sprintf("client%d", c), func() {
						defer func() { done++ }()
						for i := 0; i < 5; i++ {
							rep, err := conn.SendDataMessage(context.Background(), 1, 1, true, secs2.A(fmt.Sprintf("c%d-%d", c, i)))
							if err != nil {
								w.Fail("SMOKE", "send: %v", err)
								return
							}
							it, _ := rep.Item(); s, _ := it.ToASCII()
							if s != fmt.Sprintf("c%d-%d", c, i) {
								w.Fail("SMOKE", "wrong reply %q", s)
							}
							okc++
							core.Sleep(time.Duration(1+c) * time.Second)
						}
					})
				}
			})
		})
		return &core.Scenario{
			Desc:    "smoke",
			Horizon: 120 * time.Second,
			Done:    func() bool { return total == 4 && done == total },
			Final: func(reason string) {
				if reason != "done" {
					w.Fail("SMOKE", "did not finish: %s done=%d ok=%d live=%v", reason, done, okc, w.S.LiveIDs())
				}
			},
			Cleanup: func() {
				_ = act.Close()
				_ = pas.Close()
			},
			Nontrivial: func() bool { return okc == 20 },
		}
	}
}

func TestWorker(t *testing.T) {
	core.WorkerMain(t, core.Property{ID: "SMOKE", Configs: []string{"default"}, Build: build})
}
