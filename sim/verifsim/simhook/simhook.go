// Package simhook is the seam between instrumented library code and the deterministic
// scheduler. It is copied into a scratch copy of the module under test (never into /repo).
//
// With no scheduler installed every entry point is a cheap no-op, so the instrumented tree
// behaves like the original (that is how the repository's own tests are run on it).
//
// With a scheduler installed the "runner rule" holds: at most one registered goroutine, the
// runner, passes a hook; every other registered goroutine that reaches a hook parks on a
// channel it creates itself (durably blocked inside a synctest bubble) until the driver
// releases it.
package simhook

import (
	"runtime"
	"runtime/debug"
	"sort"
	"sync"
	"sync/atomic"
)

// G is a registered (logical) goroutine.
type G struct {
	ID     string // logical id: parent id + "." + spawn ordinal (zero padded)
	Name   string
	spawnN int
	ch     chan struct{}
	Site   string // where it is parked
	App    bool   // application (harness) goroutine: eligible for gstall
	parked bool
	exited bool
	// StallUntil: driver must not release before this fake-time instant (unix nanos); 0 = none.
	StallUntil int64
}

// Policy is supplied by the driver side (package core).
type Policy interface {
	// Preempt is asked each time the runner passes a hook; true = give up the CPU here.
	Preempt(g *G, site string) bool
	// Order returns a permutation of 0..n-1 used as the poll order of a rewritten select.
	Order(n int, site string) []int
	// Pick chooses which waiter index (0..n-1) gets something handed over (unused waiters retry).
	Pick(n int, site string) int
}

// Sched is one simulation's scheduler state. Exactly one may be installed at a time per process.
type Sched struct {
	mu        sync.Mutex
	byGoid    map[uint64]*G
	parked    map[string]*G
	runner    *G
	policy    Policy
	wake      chan struct{}
	Hooks     uint64 // hooks passed by the runner
	Preempt   uint64 // preemptions taken
	Parks     uint64
	AnonHit   uint64 // hooks reached by unregistered goroutines (should stay 0 apart from the driver)
	rootN     int
	free      atomic.Bool // free-run: hooks become no-ops (used for end-of-run cleanup)
	Log       func(kind, id, site string)
	driver    uint64        // goid of the driver (bubble root)
	observing atomic.Uint64 // goid currently inside the Observer callback (its hooks are no-ops)
	SiteHit   map[string]uint64
}

var cur atomic.Pointer[Sched]

// poisoned: the run is over and its wind-down did not finish (code under test that never returns
// while a polling goroutine keeps the fake clock moving, so the bubble can neither finish nor
// deadlock). Every goroutine other than the driver then exits at its next hook, deferred calls
// included; what remains is durably blocked and ends the bubble through synctest's deadlock panic.
var (
	poisoned     atomic.Bool
	poisonDriver atomic.Uint64
	freeHooks    atomic.Int64
	// SpunInWindDown: the wind-down of the current run was poisoned because hooks kept coming at a rate
	// only a busy loop produces.
	SpunInWindDown atomic.Bool
)

const freeHookLimit = 100000

// Poison makes every hook terminate its goroutine (runtime.Goexit). Cleared by the next Install.
func Poison() {
	if s := cur.Load(); s != nil {
		poisonDriver.Store(s.driver)
	} else {
		poisonDriver.Store(goid())
	}
	poisoned.Store(true)
}

func poisonCheck() {
	if poisoned.Load() && goid() != poisonDriver.Load() {
		runtime.Goexit()
	}
}

// Install makes s the active scheduler. The calling goroutine becomes the driver.
func Install(p Policy) *Sched {
	poisoned.Store(false)
	freeHooks.Store(0)
	SpunInWindDown.Store(false)
	s := &Sched{
		byGoid:  map[uint64]*G{},
		parked:  map[string]*G{},
		policy:  p,
		wake:    make(chan struct{}, 1),
		driver:  goid(),
		SiteHit: map[string]uint64{},
	}
	cur.Store(s)

	return s
}

// Current returns the installed scheduler (nil if none).
func Current() *Sched { return cur.Load() }

// Uninstall removes the active scheduler (and any observer).
func Uninstall() { cur.Store(nil); Observer = nil }

// Active reports whether a scheduler is installed and not in free-run mode.
func Active() bool {
	s := cur.Load()
	return s != nil && !s.free.Load()
}

func goid() uint64 {
	var buf [40]byte
	n := runtime.Stack(buf[:], false)
	// "goroutine 123 ["
	var id uint64
	for i := 10; i < n; i++ {
		c := buf[i]
		if c < '0' || c > '9' {
			break
		}
		id = id*10 + uint64(c-'0')
	}

	return id
}

func pad(n int) string {
	const digits = "0123456789"
	b := [4]byte{'0', '0', '0', '0'}
	for i := 3; i >= 0 && n > 0; i-- {
		b[i] = digits[n%10]
		n /= 10
	}

	return string(b[:])
}

// Token identifies a goroutine about to be spawned.
type Token struct {
	s  *Sched
	id string
}

// Spawn is called in the parent immediately before a rewritten go statement.
func Spawn() Token {
	s := cur.Load()
	if s == nil || s.free.Load() {
		return Token{}
	}

	me := goid()
	s.mu.Lock()
	defer s.mu.Unlock()
	var id string
	if g := s.byGoid[me]; g != nil {
		g.spawnN++
		id = g.ID + "." + pad(g.spawnN)
	} else {
		s.rootN++
		id = "r" + pad(s.rootN)
	}

	return Token{s: s, id: id}
}

// Enter is the first statement of a spawned goroutine: it registers the goroutine under its
// logical id and parks it until the driver releases it.
func Enter(t Token) {
	if t.s == nil {
		return
	}
	s := t.s
	if cur.Load() != s || s.free.Load() {
		return
	}
	g := &G{ID: t.id}
	s.mu.Lock()
	s.byGoid[goid()] = g
	s.mu.Unlock()
	s.park(g, "spawn")
}

// EnterNamed registers an application goroutine (used by the harness).
func EnterNamed(t Token, name string, app bool) {
	if t.s == nil {
		return
	}
	s := t.s
	if cur.Load() != s || s.free.Load() {
		return
	}
	g := &G{ID: t.id, Name: name, App: app}
	s.mu.Lock()
	s.byGoid[goid()] = g
	s.mu.Unlock()
	s.park(g, "spawn")
}

// OnPanic, when set, receives panics of registered goroutines while a scheduler is active (the
// goroutine then ends instead of crashing the worker process; the run is failed as PANIC).
var OnPanic func(id string, v any, stack []byte)

// Exit is deferred in every spawned goroutine.
func Exit() {
	r := recover()
	s := cur.Load()
	if s == nil {
		if r != nil {
			panic(r)
		}

		return
	}
	me := goid()
	id := ""
	s.mu.Lock()
	if g := s.byGoid[me]; g != nil {
		id = g.ID
		g.exited = true
		delete(s.byGoid, me)
		if s.runner == g {
			s.runner = nil
			if s.Log != nil {
				s.Log("exit", g.ID, "")
			}
		}
	}
	s.mu.Unlock()
	// wake the driver: a runner that ran to completion without parking changed harness-visible
	// state (a finished call) that the driver's monitors / done predicate must re-evaluate
	select {
	case s.wake <- struct{}{}:
	default:
	}
	if r != nil {
		if OnPanic != nil && id != "" {
			OnPanic(id, r, debug.Stack())

			return
		}
		panic(r)
	}
}

// Observer, when set by a harness, is called right after every mutating atomic operation of the
// code under test, on the goroutine that performed it (the runner), with scheduling hooks disabled
// for the duration of the call. It gives the harness an exact trace of a shared register (such as
// the connection state) even when several changes happen between two driver steps.
var Observer func()

// Observe invokes the Observer (no-op when none is installed or no scheduler is active).
func Observe() {
	f := Observer
	if f == nil {
		return
	}
	s := cur.Load()
	if s == nil || s.free.Load() {
		return
	}
	me := goid()
	if s.observing.Load() == me {
		return
	}
	s.mu.Lock()
	g := s.byGoid[me]
	s.mu.Unlock()
	if g == nil {
		return // the driver and unregistered goroutines are not observed
	}
	s.observing.Store(me)
	f()
	s.observing.Store(0)
}

// Yield is the scheduling point placed before (and after) every instrumented operation.
func Yield(site string) {
	poisonCheck()
	s := cur.Load()
	if s == nil {
		return
	}
	if s.free.Load() {
		// wind-down: the scheduler no longer decides who runs. A goroutine of the code under test that
		// spins here (never blocks) would keep the bubble's clock from advancing and hang the worker for
		// good; after an absurd number of hooks the run is poisoned instead (see Poison).
		if freeHooks.Add(1) > freeHookLimit && !poisoned.Load() {
			SpunInWindDown.Store(true)
			Poison()
		}

		return
	}
	me := goid()
	if s.observing.Load() == me {
		return
	}
	s.mu.Lock()
	g := s.byGoid[me]
	if g == nil {
		if me != s.driver {
			s.AnonHit++
		}
		s.mu.Unlock()

		return
	}
	if s.runner == g {
		s.Hooks++
		if !s.policy.Preempt(g, site) {
			s.mu.Unlock()

			return
		}
		s.Preempt++
		s.runner = nil
		if s.Log != nil {
			s.Log("preempt", g.ID, site)
		}
	}
	s.mu.Unlock()
	s.park(g, site)
}

// Resume is Yield under another name: it is placed right after an operation that may have
// blocked, so that a goroutine woken as a side effect of the runner's action parks before it
// executes anything observable.
func Resume(site string) { Yield(site) }

func (s *Sched) park(g *G, site string) {
	ch := make(chan struct{})
	s.mu.Lock()
	if s.free.Load() {
		s.mu.Unlock()

		return
	}
	g.ch = ch
	g.Site = site
	g.parked = true
	s.parked[g.ID] = g
	s.Parks++
	s.SiteHit[site]++
	s.mu.Unlock()
	select {
	case s.wake <- struct{}{}:
	default:
	}
	<-ch
}

// Order is called by a rewritten select.
func Order(n int, site string) []int {
	s := cur.Load()
	if s == nil || s.free.Load() {
		return identity(n)
	}
	me := goid()
	s.mu.Lock()
	g := s.byGoid[me]
	s.mu.Unlock()
	if g == nil {
		return identity(n)
	}

	return s.policy.Order(n, site)
}

// Pick lets shims ask the scheduler for a choice among n alternatives.
func Pick(n int, site string) int {
	s := cur.Load()
	if s == nil || s.free.Load() || n <= 1 {
		return 0
	}

	return s.policy.Pick(n, site)
}

var identCache = [][]int{{}, {0}, {0, 1}, {0, 1, 2}, {0, 1, 2, 3}, {0, 1, 2, 3, 4}, {0, 1, 2, 3, 4, 5}}

func identity(n int) []int {
	if n < len(identCache) {
		return identCache[n]
	}
	r := make([]int, n)
	for i := range r {
		r[i] = i
	}

	return r
}

// ---- driver side ----

// Parked returns the parked goroutines sorted by logical id.
func (s *Sched) Parked() []*G {
	s.mu.Lock()
	defer s.mu.Unlock()
	out := make([]*G, 0, len(s.parked))
	for _, g := range s.parked {
		out = append(out, g)
	}
	sort.Slice(out, func(i, j int) bool { return out[i].ID < out[j].ID })

	return out
}

// Release makes g the runner and lets it go.
func (s *Sched) Release(g *G) {
	s.mu.Lock()
	delete(s.parked, g.ID)
	g.parked = false
	s.runner = g
	ch := g.ch
	g.ch = nil
	if s.Log != nil {
		s.Log("run", g.ID, g.Site)
	}
	s.mu.Unlock()
	close(ch)
}

// ClearRunner is called by the driver before it performs an event itself.
func (s *Sched) ClearRunner() {
	s.mu.Lock()
	s.runner = nil
	s.mu.Unlock()
}

// Wake returns the channel poked whenever a goroutine parks.
func (s *Sched) Wake() <-chan struct{} { return s.wake }

// Poke wakes the driver if it is sleeping (used when an event is scheduled from a goroutine).
func (s *Sched) Poke() {
	select {
	case s.wake <- struct{}{}:
	default:
	}
}

// NumParked returns the number of parked goroutines.
func (s *Sched) NumParked() int {
	s.mu.Lock()
	defer s.mu.Unlock()

	return len(s.parked)
}

// Live returns the number of registered goroutines that have not exited.
func (s *Sched) Live() int {
	s.mu.Lock()
	defer s.mu.Unlock()

	return len(s.byGoid)
}

// LiveIDs lists registered goroutines (id, name, parked site) for diagnostics.
func (s *Sched) LiveIDs() []string {
	s.mu.Lock()
	defer s.mu.Unlock()
	var out []string
	for _, g := range s.byGoid {
		st := "blocked"
		if g.parked {
			st = "parked@" + g.Site
		}
		out = append(out, g.ID+"/"+g.Name+":"+st)
	}
	sort.Strings(out)

	return out
}

// FreeRun turns every hook into a no-op and releases all parked goroutines. Used after the
// verdict so the bubble can wind down under the ordinary Go scheduler.
func (s *Sched) FreeRun() {
	s.mu.Lock()
	s.free.Store(true)
	var chs []chan struct{}
	for id, g := range s.parked {
		chs = append(chs, g.ch)
		g.ch = nil
		g.parked = false
		delete(s.parked, id)
	}
	s.mu.Unlock()
	for _, ch := range chs {
		close(ch)
	}
}

// CurrentID returns the logical id of the calling goroutine ("" if unregistered).
func CurrentID() string {
	s := cur.Load()
	if s == nil {
		return ""
	}
	me := goid()
	s.mu.Lock()
	defer s.mu.Unlock()
	if g := s.byGoid[me]; g != nil {
		return g.ID
	}

	return ""
}

// Go spawns fn as a registered goroutine (used by shims such as WaitGroup.Go and by the harness).
func Go(name string, app bool, fn func()) {
	t := Spawn()
	go func() {
		EnterNamed(t, name, app)
		defer Exit()
		fn()
	}()
}
