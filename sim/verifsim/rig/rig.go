// Package rig assembles the common HSMS-SS topology: one real (instrumented) hsmsss connection
// on the simulated network against the reference peer, with recording handlers.
package rig

import (
	"context"
	"fmt"
	"time"

	"github.com/arloliu/go-secs/v2/hsms"
	"github.com/arloliu/go-secs/v2/hsmsss"
	"github.com/arloliu/go-secs/v2/verifsim/core"
	"github.com/arloliu/go-secs/v2/verifsim/refhsms"
	"github.com/arloliu/go-secs/v2/verifsim/simnet"
)

// Addr is the simulated address everything uses.
const Addr = "sim:5000"

// Opts configures the system under test. Zero values mean "library default".
type Opts struct {
	Active             bool
	Equip              bool
	T3, T5, T6, T7, T8 time.Duration
	Linktest           time.Duration
	LinkThreshold      int
	Suppress           *bool
	SessionID          *uint16
	ValidateSession    bool
	AutoS9F9           bool
	QueueSize          int
	CloseTimeout       time.Duration
	WriteTimeout       *time.Duration
	BackoffInit        time.Duration
	BackoffMult        float64
	ConnectTimeout     time.Duration
	Handlers           int  // number of recording data handlers (default 2)
	NoDataHandlers     bool // register no data handler (the harness registers its own)
	NoStateHandler     bool
	AsyncErrHandler    bool
	TraceTraffic       bool // per-frame wire tracing on (a logging option must not change behaviour)
	DecodeErrHandlers  bool // one decode-error handler per data handler, recording into Deliveries like them
}

// Delivery is one data-handler invocation.
type Delivery struct {
	At      time.Duration
	Handler int
	Hdr     [10]byte
	Body    []byte
	Seq     int
	State   hsms.ConnState
	DecErr  string
	// Diverted: received by a decode-error handler, not a data handler
	Diverted bool
}

// StateChange is one state-change notification.
type StateChange struct {
	At         time.Duration
	Prev, Next hsms.ConnState
	Seq        int
}

// Rig is the assembled topology.
type Rig struct {
	W    *core.World
	N    *simnet.Net
	P    *refhsms.Peer
	C    hsmsss.Connection
	Log  *core.SimLogger
	Opts Opts

	Deliveries []Delivery
	States     []StateChange
	AsyncErrs  []string
	seq        int
	// OnDeliver is called on the library's receive goroutine for handler 0 only.
	OnDeliver func(m *hsms.DataMessage, ep hsms.SECS2Endpoint)
	// HandlerDelay makes every data handler block for this long of simulated time.
	HandlerDelay time.Duration
	// AsyncErrDelay makes the async-send error handler block for this long.
	AsyncErrDelay time.Duration

	OpenErr    error
	OpenDone   bool
	OpenedAt   time.Duration
	peerRetry  bool
	PeerDialAt []time.Duration
}

// New builds the rig (driver context, inside the bubble). The peer is attached for an active SUT;
// for a passive SUT call PeerDialLoop once the scenario wants the peer to connect.
func New(w *core.World, o Opts) *Rig {
	r := &Rig{W: w, Opts: o}
	r.N = simnet.New(w)
	r.N.LatMin = time.Millisecond
	r.P = refhsms.New(w, r.N)
	r.Log = core.NewLogger(w)

	var opts []hsmsss.Option
	co := func(c hsms.ConnOption) { opts = append(opts, hsmsss.WithConnectionOption(c)) }
	if o.Active {
		opts = append(opts, hsmsss.WithActive(), hsmsss.WithDialer(r.N.Dial))
		r.P.Attach()
	} else {
		opts = append(opts, hsmsss.WithPassive(), hsmsss.WithListener(r.N.Listen))
	}
	if o.Equip {
		opts = append(opts, hsmsss.WithEquipRole())
	} else {
		opts = append(opts, hsmsss.WithHostRole())
	}
	if o.ConnectTimeout > 0 {
		opts = append(opts, hsmsss.WithConnectTimeout(o.ConnectTimeout))
	}
	co(hsms.WithLogger(r.Log))
	if o.T3 > 0 {
		co(hsms.WithT3(o.T3))
	}
	if o.T5 > 0 {
		co(hsms.WithT5(o.T5))
	}
	if o.T6 > 0 {
		co(hsms.WithT6(o.T6))
	}
	if o.T7 > 0 {
		co(hsms.WithT7(o.T7))
	}
	if o.T8 > 0 {
		co(hsms.WithT8(o.T8))
	}
	if o.Linktest > 0 {
		co(hsms.WithLinktestInterval(o.Linktest))
	}
	if o.LinkThreshold > 0 {
		co(hsms.WithLinktestFailThreshold(o.LinkThreshold))
	}
	if o.Suppress != nil {
		co(hsms.WithLinktestSuppression(*o.Suppress))
	}
	if o.SessionID != nil {
		co(hsms.WithSessionID(*o.SessionID))
		r.P.Session = *o.SessionID
	}
	if o.ValidateSession {
		co(hsms.WithSessionIDValidation(true))
	}
	if o.AutoS9F9 {
		co(hsms.WithAutoS9F9(true))
	}
	if o.QueueSize > 0 {
		co(hsms.WithSenderQueueSize(o.QueueSize))
	}
	if o.CloseTimeout > 0 {
		co(hsms.WithCloseTimeout(o.CloseTimeout))
	}
	if o.WriteTimeout != nil {
		co(hsms.WithWriteTimeout(*o.WriteTimeout))
	}
	if o.BackoffInit > 0 {
		m := o.BackoffMult
		if m < 1 {
			m = 2
		}
		co(hsms.WithReconnectBackoff(o.BackoffInit, m))
	}
	if o.TraceTraffic {
		co(hsms.WithTraceTraffic(true))
	}
	if o.AsyncErrHandler {
		co(hsms.WithAsyncSendErrorHandler(func(m hsms.Message, err error) {
			r.AsyncErrs = append(r.AsyncErrs, fmt.Sprintf("%x: %v", m.SystemBytes(), err))
			if r.AsyncErrDelay > 0 {
				core.Sleep(r.AsyncErrDelay) // a slow application callback on the async sender goroutine
			}
		}))
	}
	cfg, err := hsmsss.NewConfig("sim", 5000, opts...)
	if err != nil {
		panic(fmt.Sprintf("rig: config: %v", err))
	}
	c, err := hsmsss.New(cfg)
	if err != nil {
		panic(fmt.Sprintf("rig: new: %v", err))
	}
	r.C = c
	nh := o.Handlers
	if nh == 0 {
		nh = 2
	}
	if o.NoDataHandlers {
		nh = 0
	}
	for i := 0; i < nh; i++ {
		i := i
		c.AddDataMessageHandler(func(m *hsms.DataMessage, ep hsms.SECS2Endpoint) {
			r.seq++
			d := Delivery{At: w.Now(), Handler: i, Hdr: m.HeaderBytes(), Body: m.AppendBodyTo(nil), Seq: r.seq}
			if err := m.DecodeErr(); err != nil {
				d.DecErr = err.Error()
			}
			r.Deliveries = append(r.Deliveries, d)
			if r.HandlerDelay > 0 {
				core.Sleep(r.HandlerDelay)
			}
			if i == 0 && r.OnDeliver != nil {
				r.OnDeliver(m, ep)
			}
		})
	}
	if o.DecodeErrHandlers {
		for i := 0; i < nh; i++ {
			i := i
			c.AddDecodeErrorHandler(func(m *hsms.DataMessage, err error, ep hsms.SECS2Endpoint) {
				r.seq++
				d := Delivery{At: w.Now(), Handler: i, Hdr: m.HeaderBytes(), Body: m.AppendBodyTo(nil), Seq: r.seq, Diverted: true}
				if err != nil {
					d.DecErr = err.Error()
				}
				r.Deliveries = append(r.Deliveries, d)
			})
		}
	}
	if !o.NoStateHandler {
		c.AddConnStateChangeHandler(func(prev, next hsms.ConnState) {
			r.seq++
			r.States = append(r.States, StateChange{At: w.Now(), Prev: prev, Next: next, Seq: r.seq})
		})
	}

	return r
}

// Open starts Open on its own application goroutine.
func (r *Rig) Open(mode hsms.OpenMode) {
	r.W.Go("open", func() {
		r.OpenErr = r.C.Open(context.Background(), mode)
		r.OpenDone = true
		r.OpenedAt = r.W.Now()
	})
}

// PeerDialLoop makes the peer (re)connect to a passive SUT: every `every` of simulated time it
// checks whether it has a live connection and, if not and the SUT listens, connects and sends
// Select.req. It stops when stop() returns true.
func (r *Rig) PeerDialLoop(every time.Duration, stop func() bool) {
	var tick func()
	tick = func() {
		if stop != nil && stop() {
			return
		}
		last := r.P.Last()
		if (last == nil || !last.Alive()) && r.N.Listening(Addr) {
			r.PeerDialAt = append(r.PeerDialAt, r.W.Now())
			if c := r.P.Connect(Addr); c != nil {
				c.SelectReq()
			}
		}
		r.W.After(every, "peer-dial-tick", tick)
	}
	r.W.After(0, "peer-dial-tick", tick)
}

// Selected reports whether the SUT is in the Selected state.
func (r *Rig) Selected() bool { return r.C.State() == hsms.SelectedState }

// Close closes the SUT (free-run cleanup helper).
func (r *Rig) Close() { _ = r.C.Close() }
