package rig

import (
	"context"
	"fmt"
	"time"

	"github.com/arloliu/go-secs/v2/hsms"
	"github.com/arloliu/go-secs/v2/secs1"
	"github.com/arloliu/go-secs/v2/verifsim/core"
	"github.com/arloliu/go-secs/v2/verifsim/simnet"
)

// Opts1 configures a SECS-I system under test. Zero values mean "library default".
type Opts1 struct {
	Active         bool
	Equip          bool
	Device         uint16
	T1, T2, T3, T4 time.Duration
	T5             time.Duration
	Retry          int // -1 = library default
	BackoffInit    time.Duration
	BackoffMult    float64
	CloseTimeout   time.Duration
	ConnectTimeout time.Duration
	Net            *simnet.Net // share a network (real-vs-real topologies); nil = a fresh one
	Name           string
}

// Rig1 is a real (instrumented) secs1 connection on the simulated network.
type Rig1 struct {
	W    *core.World
	N    *simnet.Net
	C    secs1.Connection
	Log  *core.SimLogger
	Opts Opts1

	Deliveries []Delivery
	States     []StateChange
	seq        int
	// OnDeliver is called on the library's line-engine goroutine for every delivered message.
	OnDeliver func(m *hsms.DataMessage, ep hsms.SECS2Endpoint)
	OpenErr   error
	OpenDone  bool
}

// NewSECS1 builds the SECS-I rig (driver context, inside the bubble).
func NewSECS1(w *core.World, o Opts1) *Rig1 {
	r := &Rig1{W: w, Opts: o, N: o.Net}
	if r.N == nil {
		r.N = simnet.New(w)
		r.N.LatMin = time.Millisecond
	}
	r.Log = core.NewLogger(w)
	var opts []secs1.Option
	co := func(c hsms.ConnOption) { opts = append(opts, secs1.WithConnectionOption(c)) }
	if o.Active {
		opts = append(opts, secs1.WithActive(), secs1.WithDialer(r.N.Dial))
	} else {
		opts = append(opts, secs1.WithPassive(), secs1.WithListener(r.N.Listen))
	}
	if o.Equip {
		opts = append(opts, secs1.WithEquipment())
	} else {
		opts = append(opts, secs1.WithHost())
	}
	opts = append(opts, secs1.WithDeviceID(o.Device))
	if o.T1 > 0 {
		opts = append(opts, secs1.WithT1(o.T1))
	}
	if o.T2 > 0 {
		opts = append(opts, secs1.WithT2(o.T2))
	}
	if o.T4 > 0 {
		opts = append(opts, secs1.WithT4(o.T4))
	}
	if o.T5 > 0 {
		opts = append(opts, secs1.WithT5(o.T5))
	}
	if o.Retry >= 0 {
		opts = append(opts, secs1.WithRetryLimit(o.Retry))
	}
	if o.ConnectTimeout > 0 {
		opts = append(opts, secs1.WithConnectTimeout(o.ConnectTimeout))
	}
	co(hsms.WithLogger(r.Log))
	if o.T3 > 0 {
		co(hsms.WithT3(o.T3))
	}
	if o.CloseTimeout > 0 {
		co(hsms.WithCloseTimeout(o.CloseTimeout))
	}
	if o.BackoffInit > 0 {
		m := o.BackoffMult
		if m < 1 {
			m = 2
		}
		co(hsms.WithReconnectBackoff(o.BackoffInit, m))
	}
	cfg, err := secs1.NewConfig("sim", 5000, opts...)
	if err != nil {
		panic(fmt.Sprintf("rig1: config: %v", err))
	}
	c, err := secs1.New(cfg)
	if err != nil {
		panic(fmt.Sprintf("rig1: new: %v", err))
	}
	r.C = c
	c.AddDataMessageHandler(func(m *hsms.DataMessage, ep hsms.SECS2Endpoint) {
		r.seq++
		d := Delivery{At: w.Now(), Hdr: m.HeaderBytes(), Body: m.AppendBodyTo(nil), Seq: r.seq}
		r.Deliveries = append(r.Deliveries, d)
		if r.OnDeliver != nil {
			r.OnDeliver(m, ep)
		}
	})
	c.AddConnStateChangeHandler(func(prev, next hsms.ConnState) {
		r.seq++
		r.States = append(r.States, StateChange{At: w.Now(), Prev: prev, Next: next, Seq: r.seq})
	})

	return r
}

// Open starts Open(OpenBackground) on its own application goroutine.
func (r *Rig1) Open() {
	name := "open" + r.Opts.Name
	r.W.Go(name, func() {
		r.OpenErr = r.C.Open(context.Background(), hsms.OpenBackground)
		r.OpenDone = true
	})
}

// Selected reports whether the SUT is in the Selected state.
func (r *Rig1) Selected() bool { return r.C.State() == hsms.SelectedState }
