// Package refe4 is an independent, event-driven reference implementation of the SEMI E4 (SECS-I)
// block transfer protocol for the simulator: ENQ/EOT/ACK/NAK line control, the length byte, the
// 10-byte block header, the 16-bit checksum, and contention handling in both roles. It is written
// from the standard's rules as quoted in the properties and the repository's docs and never calls
// the library's block code. It runs entirely on the simulator's driver.
package refe4

import (
	"encoding/binary"
	"fmt"
	"time"

	"github.com/arloliu/go-secs/v2/verifsim/core"
	"github.com/arloliu/go-secs/v2/verifsim/simnet"
)

// Line control characters.
const (
	ENQ byte = 0x05
	EOT byte = 0x04
	ACK byte = 0x06
	NAK byte = 0x15
)

// Header is the unpacked 10-byte block header.
type Header struct {
	Device uint16 // 15 bits
	R      bool   // direction: false = to equipment, true = to host
	Stream byte   // 7 bits
	W      bool
	Func   byte
	Num    uint16 // 15 bits
	E      bool   // last block
	Sys    uint32
}

// Pack returns the 10 header bytes.
func (h Header) Pack() [10]byte {
	var b [10]byte
	b[0] = byte(h.Device>>8) & 0x7F
	if h.R {
		b[0] |= 0x80
	}
	b[1] = byte(h.Device)
	b[2] = h.Stream & 0x7F
	if h.W {
		b[2] |= 0x80
	}
	b[3] = h.Func
	b[4] = byte(h.Num>>8) & 0x7F
	if h.E {
		b[4] |= 0x80
	}
	b[5] = byte(h.Num)
	binary.BigEndian.PutUint32(b[6:], h.Sys)

	return b
}

// Unpack parses 10 header bytes.
func Unpack(b []byte) Header {
	return Header{
		Device: (uint16(b[0]&0x7F) << 8) | uint16(b[1]),
		R:      b[0]&0x80 != 0,
		Stream: b[2] & 0x7F,
		W:      b[2]&0x80 != 0,
		Func:   b[3],
		Num:    (uint16(b[4]&0x7F) << 8) | uint16(b[5]),
		E:      b[4]&0x80 != 0,
		Sys:    binary.BigEndian.Uint32(b[6:10]),
	}
}

func (h Header) String() string {
	return fmt.Sprintf("dev=%d R=%v S%dF%d W=%v blk=%d E=%v sys=%d", h.Device, h.R, h.Stream, h.Func, h.W, h.Num, h.E, h.Sys)
}

// SameMessage reports whether two headers agree on every block-invariant field.
func (h Header) SameMessage(o Header) bool {
	return h.Device == o.Device && h.R == o.R && h.Stream == o.Stream && h.W == o.W && h.Func == o.Func && h.Sys == o.Sys
}

// Checksum is the 16-bit arithmetic sum of header and body bytes.
func Checksum(hdr [10]byte, body []byte) uint16 {
	var s uint32
	for _, v := range hdr {
		s += uint32(v)
	}
	for _, v := range body {
		s += uint32(v)
	}

	return uint16(s)
}

// Wire returns the on-line form of a well-formed block: length byte, header, body, checksum.
func Wire(h Header, body []byte) []byte {
	hb := h.Pack()
	out := make([]byte, 0, 13+len(body))
	out = append(out, byte(10+len(body)))
	out = append(out, hb[:]...)
	out = append(out, body...)
	cs := Checksum(hb, body)

	return append(out, byte(cs>>8), byte(cs))
}

// RxBlock is one block transmission received from the library end.
type RxBlock struct {
	At     time.Duration // when the last byte arrived
	EnqAt  time.Duration // when the ENQ of this transmission arrived
	Raw    []byte        // length byte .. checksum
	Valid  bool          // length in [10,254], byte count right, checksum right
	Why    string        // reason when not valid
	H      Header
	Body   []byte
	Answer byte // what the peer answered (ACK / NAK / 0 = nothing)
}

// TxResult is how one block transmission towards the library ended.
type TxResult struct {
	Raw      []byte
	Outcome  string // "ack", "nak", "no-eot", "no-answer", "other:<byte>", "aborted"
	EnqAt    time.Duration
	SentAt   time.Duration // when the last byte of the block reached the library end
	AnswerAt time.Duration
	Yields   int // times this transmission was postponed by a contention yield
}

type txItem struct {
	raw   []byte
	cuts  []int
	gaps  []time.Duration
	done  func(TxResult)
	res   TxResult
	tries int
}

// line states
const (
	stIdle = iota
	stReceiving
	stAwaitEOT
	stAwaitAck
)

// Peer is the reference SECS-I end of one simulated line.
type Peer struct {
	W      *core.World
	L      *simnet.Link
	Master bool // this peer is the equipment (master in contention)
	T1, T2 time.Duration

	// Grant decides whether an ENQ from the library end is answered with EOT (nil = always).
	Grant func() bool
	// Answer decides the reply to a received block (nil = ACK if valid else NAK; return 0 = silence).
	Answer func(b *RxBlock) byte
	// OnBlock is called after a block was received and answered.
	OnBlock func(b RxBlock)
	// OnEnd is called when the library end closed or the link was reset.
	OnEnd func()

	Rx     []RxBlock
	Tx     []TxResult
	state  int
	buf    []byte
	need   int
	enqAt  time.Duration
	timer  *core.Event
	queue  []*txItem
	cur    *txItem
	Dead   bool
	EOF    bool
	Chars  []byte // every line-control character received outside a block (diagnostics)
	Yields int
}

// New attaches a reference peer to a link (as its raw end).
func New(w *core.World, master bool, t1, t2 time.Duration) *Peer {
	return &Peer{W: w, Master: master, T1: t1, T2: t2}
}

func (p *Peer) send(b ...byte) {
	if p.Dead || p.L == nil {
		return
	}
	p.L.Send(simnet.Chunk{Data: b, Delay: p.L.N.LatMin})
}

func (p *Peer) arm(d time.Duration, label string, f func()) {
	p.disarm()
	p.timer = p.W.After(d, label, f)
}

func (p *Peer) disarm() {
	if p.timer != nil {
		p.W.Cancel(p.timer)
		p.timer = nil
	}
}

// OnData implements simnet.RawEnd.
func (p *Peer) OnData(l *simnet.Link, data []byte) {
	for _, c := range data {
		p.onByte(c)
	}
}

func (p *Peer) onByte(c byte) {
	w := p.W
	switch p.state {
	case stIdle:
		p.Chars = append(p.Chars, c)
		if c == ENQ {
			p.grant()
		}
	case stReceiving:
		if p.need == 0 {
			// the length byte
			p.buf = []byte{c}
			n := int(c)
			if n < 10 || n > 254 {
				// invalid length: keep listening until the line is silent for T1, then NAK
				p.need = -1
				p.arm(p.T1, "e4-drain", func() { p.finishRx(false, fmt.Sprintf("length byte %d", n)) })

				return
			}
			p.need = n + 2
			p.arm(p.T1, "e4-t1", func() { p.finishRx(false, "T1 inside the block") })

			return
		}
		p.buf = append(p.buf, c)
		if p.need < 0 {
			p.arm(p.T1, "e4-drain", func() { p.finishRx(false, "invalid length byte") })

			return
		}
		if len(p.buf) == 1+p.need {
			hb := [10]byte{}
			copy(hb[:], p.buf[1:11])
			body := p.buf[11 : len(p.buf)-2]
			got := binary.BigEndian.Uint16(p.buf[len(p.buf)-2:])
			if Checksum(hb, body) != got {
				p.need = -1
				p.arm(p.T1, "e4-drain", func() { p.finishRx(false, "checksum") })

				return
			}
			p.finishRx(true, "")

			return
		}
		p.arm(p.T1, "e4-t1", func() { p.finishRx(false, "T1 inside the block") })
	case stAwaitEOT:
		p.Chars = append(p.Chars, c)
		switch {
		case c == EOT:
			p.transmit()
		case c == ENQ && !p.Master:
			// contention, we are the slave: yield — grant the line, receive, then retry our send
			p.Yields++
			p.cur.res.Yields++
			w.Logf("e4 peer yields to the master's ENQ")
			p.queue = append([]*txItem{p.cur}, p.queue...)
			p.cur = nil
			p.grant()
		}
	case stAwaitAck:
		p.Chars = append(p.Chars, c)
		p.disarm()
		it := p.cur
		it.res.AnswerAt = w.Now()
		switch c {
		case ACK:
			it.res.Outcome = "ack"
		case NAK:
			it.res.Outcome = "nak"
		default:
			it.res.Outcome = fmt.Sprintf("other:%#x", c)
		}
		p.finishTx()
	}
}

func (p *Peer) grant() {
	p.enqAt = p.W.Now()
	if p.Grant != nil && !p.Grant() {
		return
	}
	p.state = stReceiving
	p.buf, p.need = nil, 0
	p.send(EOT)
	p.arm(p.T2, "e4-t2-length", func() { p.finishRx(false, "T2 waiting for the length byte") })
}

func (p *Peer) finishRx(valid bool, why string) {
	p.disarm()
	b := RxBlock{At: p.W.Now(), EnqAt: p.enqAt, Raw: append([]byte(nil), p.buf...), Valid: valid, Why: why}
	if valid {
		b.H = Unpack(p.buf[1:11])
		b.Body = append([]byte(nil), p.buf[11:len(p.buf)-2]...)
	}
	ans := ACK
	if !valid {
		ans = NAK
	}
	if p.Answer != nil {
		ans = p.Answer(&b)
	}
	b.Answer = ans
	if ans != 0 {
		p.send(ans)
	}
	p.Rx = append(p.Rx, b)
	p.W.Logf("e4 peer rx valid=%v %s answer=%#x %s", valid, b.H, ans, why)
	p.state = stIdle
	p.buf, p.need = nil, 0
	if p.OnBlock != nil {
		p.OnBlock(b)
	}
	p.kick()
}

// SendBlock queues raw block bytes for transmission to the library end (ENQ, wait for EOT, block,
// wait for the answer). cuts/gaps split the block bytes into segments (inter-character delays).
func (p *Peer) SendBlock(raw []byte, cuts []int, gaps []time.Duration, done func(TxResult)) {
	p.queue = append(p.queue, &txItem{raw: raw, cuts: cuts, gaps: gaps, done: done, res: TxResult{Raw: raw}})
	p.kick()
}

// Busy reports whether a transmission is queued or in progress.
func (p *Peer) Busy() bool { return p.cur != nil || len(p.queue) > 0 || p.state != stIdle }

func (p *Peer) kick() {
	if p.Dead || p.state != stIdle || p.cur != nil || len(p.queue) == 0 {
		return
	}
	p.cur = p.queue[0]
	p.queue = p.queue[1:]
	p.cur.tries++
	p.cur.res.EnqAt = p.W.Now()
	p.state = stAwaitEOT
	p.send(ENQ)
	it := p.cur
	p.arm(p.T2, "e4-t2-eot", func() {
		if p.cur == it && p.state == stAwaitEOT {
			it.res.Outcome = "no-eot"
			p.finishTx()
		}
	})
}

func (p *Peer) transmit() {
	p.disarm()
	it := p.cur
	p.state = stAwaitAck
	lat := p.L.N.LatMin
	var chunks []simnet.Chunk
	prev := 0
	bounds := append(append([]int(nil), it.cuts...), len(it.raw))
	total := time.Duration(0)
	for i, end := range bounds {
		if end <= prev || end > len(it.raw) {
			continue
		}
		d := lat
		if i < len(it.gaps) {
			d = it.gaps[i]
		}
		total += d
		chunks = append(chunks, simnet.Chunk{Data: it.raw[prev:end], Delay: d})
		prev = end
	}
	it.res.SentAt = p.W.Now() + total
	p.L.Send(chunks...)
	p.arm(total+p.T2, "e4-t2-ack", func() {
		if p.cur == it && p.state == stAwaitAck {
			it.res.Outcome = "no-answer"
			p.finishTx()
		}
	})
}

func (p *Peer) finishTx() {
	p.disarm()
	it := p.cur
	p.cur = nil
	p.state = stIdle
	p.Tx = append(p.Tx, it.res)
	p.W.Logf("e4 peer tx outcome=%s len=%d", it.res.Outcome, len(it.raw))
	if it.done != nil {
		it.done(it.res)
	}
	p.kick()
}

// OnEOF implements simnet.RawEnd.
func (p *Peer) OnEOF(l *simnet.Link) {
	p.EOF = true
	p.end()
	l.FIN()
}

// OnRST implements simnet.RawEnd.
func (p *Peer) OnRST(l *simnet.Link) { p.end() }

func (p *Peer) end() {
	if p.Dead {
		return
	}
	p.Dead = true
	p.disarm()
	if p.cur != nil {
		p.cur.res.Outcome = "aborted"
		p.Tx = append(p.Tx, p.cur.res)
		if p.cur.done != nil {
			p.cur.done(p.cur.res)
		}
		p.cur = nil
	}
	for _, it := range p.queue {
		it.res.Outcome = "aborted"
		if it.done != nil {
			it.done(it.res)
		}
	}
	p.queue = nil
	if p.OnEnd != nil {
		p.OnEnd()
	}
}

// ---------------------------------------------------------------- reference assembler (E4 §9.4)

// Message is a complete message as the reference assembler reconstructs it.
type Message struct {
	H    Header // header of the first block
	Body []byte
	At   time.Duration // arrival of the last block
}

// Assembler is the reference inbound message assembler: it is fed, in order, every block that was
// received intact (and therefore acknowledged) together with its arrival time.
type Assembler struct {
	Device uint16
	ToHost bool // we (the receiver) are the host: accept R=1 only
	T4     time.Duration

	open     bool
	first    Header
	body     []byte
	expect   uint16
	lastAt   time.Duration
	haveLast bool
	last     [10]byte
	Out      []Message
	Dropped  map[string]int
}

// Feed processes one intact block.
func (a *Assembler) Feed(h Header, body []byte, at time.Duration) {
	if a.Dropped == nil {
		a.Dropped = map[string]int{}
	}
	if h.Device != a.Device {
		a.Dropped["device"]++

		return
	}
	if h.R != a.ToHost {
		a.Dropped["direction"]++

		return
	}
	if a.open && at-a.lastAt > a.T4 {
		a.open = false
		a.Dropped["t4"]++
	}
	hb := h.Pack()
	if a.haveLast && hb == a.last {
		a.Dropped["duplicate"]++

		return
	}
	if a.open {
		if h.Num == a.expect && h.SameMessage(a.first) {
			a.body = append(a.body, body...)
			a.expect++
			a.lastAt = at
			a.last, a.haveLast = hb, true
			if h.E {
				a.Out = append(a.Out, Message{H: a.first, Body: a.body, At: at})
				a.open = false
			}

			return
		}
		a.open = false
		a.Dropped["sequence"]++
	}
	if h.Num == 1 || (h.Num == 0 && h.E) {
		a.first = h
		a.body = append([]byte(nil), body...)
		a.expect = h.Num + 1
		a.lastAt = at
		a.last, a.haveLast = hb, true
		a.open = true
		if h.E {
			a.Out = append(a.Out, Message{H: a.first, Body: a.body, At: at})
			a.open = false
		}

		return
	}
	a.Dropped["not-first"]++
}
