// Package simnet is the simulated network: TCP-like byte streams whose segmentation, latency,
// back-pressure and faults are decided by the simulator. It implements net.Conn / net.Listener
// and the dial/listen function types the library accepts (hsmsss.WithDialer / WithListener).
//
// Only the runner goroutine and the driver execute code in this package (runner rule), every
// blocking wait is on a channel created inside the bubble, and every entry and wake-up is a
// scheduling point.
package simnet

import (
	"context"
	"errors"
	"fmt"
	"io"
	"net"
	"os"
	"sync"
	"syscall"
	"time"

	"github.com/arloliu/go-secs/v2/verifsim/core"
	"github.com/arloliu/go-secs/v2/verifsim/simhook"
)

// Errors returned by the simulated sockets.
var (
	ErrRefused   = &net.OpError{Op: "dial", Net: "tcp", Err: syscall.ECONNREFUSED}
	ErrReset     = &net.OpError{Op: "read", Net: "tcp", Err: syscall.ECONNRESET}
	ErrPipe      = &net.OpError{Op: "write", Net: "tcp", Err: syscall.EPIPE}
	ErrAddrInUse = &net.OpError{Op: "listen", Net: "tcp", Err: syscall.EADDRINUSE}
)

type addr string

func (a addr) Network() string { return "tcp" }
func (a addr) String() string  { return string(a) }

type waitq struct{ ws []chan struct{} }

func (q *waitq) add() chan struct{} {
	ch := make(chan struct{})
	q.ws = append(q.ws, ch)

	return ch
}

func (q *waitq) wake() {
	for _, ch := range q.ws {
		close(ch)
	}
	q.ws = nil
}

// RawEnd is the simulator-side end of a link (an event-driven reference peer). Its methods run on
// the driver.
type RawEnd interface {
	OnData(l *Link, b []byte)
	OnEOF(l *Link)
	OnRST(l *Link)
}

type segment struct {
	data []byte
	at   time.Duration
	fin  bool
}

// Pipe is one direction of a link.
type Pipe struct {
	n       *Net
	name    string
	segs    []segment
	infl    int
	rcv     []byte
	eof     bool
	rst     bool
	cap     int
	stalled bool
	ev      *core.Event
	rwait   waitq
	wwait   waitq
	sink    func([]byte)
	onEOF   func()
	last    time.Duration
	finSent bool

	Written   int // bytes accepted from the writer
	Delivered int // bytes handed to the reader side
	// WMarks / DMarks: (cumulative byte count, simulated time) after each accepted write / delivery.
	WMarks []Mark
	// CMarks: (stream offset at which a Write CALL of the library began, simulated time of the call).
	// A write into a closed window is accepted later than it is issued; CalledAt tells when the
	// library decided to write the byte at an offset.
	CMarks []Mark
	DMarks []Mark
	readerGone bool
	// CutAt (>= 0) makes the pipe deliver exactly CutAt bytes and no more: the byte that would cross
	// the mark, and everything behind it, is discarded, and OnCut runs (driver context) at the instant
	// the CutAt-th byte has been delivered — a link cut at an exact byte offset.
	CutAt   int
	OnCut   func()
	cutDone bool
	// WLog holds every byte accepted from the writer (only when Net.KeepLog is set): the harness's
	// own ledger of what the library put on the wire, independent of delivery and of the peer.
	WLog []byte
	// BrokenOff is the cumulative offset at which a Write call of the writing end first returned an
	// error (-1 = never). A failed write may have torn a frame, so the writer has declared the stream
	// dead; whatever later Write calls still put on the wire before the socket is closed is not a
	// frame stream any more and a raw peer must not interpret it.
	BrokenOff  int
	finAt      time.Duration
	finSeen    bool
	rstAt      time.Duration
}

// Link is one simulated TCP connection.
type Link struct {
	N      *Net
	Gen    int // ordinal of this connection within the run (1-based)
	Addr   string
	A      *Conn // dialing/SUT side (or listener-accepted side when the peer dialed)
	B      *Conn // the other side when it is also a net.Conn (real-vs-real); nil for a raw peer
	Raw    RawEnd
	a2b    *Pipe // bytes written by A
	b2a    *Pipe // bytes read by A
	Closed bool  // RST happened
	Tag    any
}

// Net is the simulated network of one run.
type Net struct {
	W  *core.World
	mu sync.Mutex

	listeners map[string]*Listener
	Links     []*Link
	Conns     []*Conn
	Listeners []*Listener

	// DialPlan decides the outcome of each dial attempt (nil = succeed at once).
	DialPlan func(attempt int, address string) DialOutcome
	// ListenPlan may fail a listen attempt (nil error = succeed).
	ListenPlan func(attempt int, address string) error
	// OnConnect supplies the raw peer for a dial that found no listener (nil = refuse).
	OnConnect func(l *Link) RawEnd
	// Seg decides how a write of n bytes is cut into segments and delayed (nil = one segment, LatMin).
	Seg func(p *Pipe, n int) []SegPlan
	// Coalesce decides whether the bytes of a write join the segment that is still in flight ahead of
	// them (TCP is a byte stream: two writes made in quick succession may well reach the reader in one
	// read). nil = never. Only consulted for a write that Seg leaves whole and undelayed.
	Coalesce func(p *Pipe) bool
	// EOFWithData: when true, a FIN queued directly behind a data segment is delivered with it, and the
	// Read that hands out the last buffered bytes returns them TOGETHER with io.EOF — legal for an
	// io.Reader and what TLS or in-memory connections supplied through a custom dialer/listener do,
	// though a kernel TCP socket never does.
	EOFWithData bool
	// ShortRead may shorten a read that could return avail bytes (nil = return everything asked).
	ShortRead func(avail int) int
	// WriteFault may inject a torn write: return (k>=0, err) to accept only k bytes and fail.
	WriteFault func(c *Conn, n int) (int, error)

	LatMin time.Duration
	Cap    int
	// KeepLog makes every pipe record the bytes written into it (Pipe.WLog).
	KeepLog bool
	// Mangle is the middlebox: it may alter or drop (return nil) the bytes of one write before they
	// enter the pipe. The writer still sees the write succeed.
	Mangle func(p *Pipe, b []byte) []byte

	Dials, DialFails, Listens, ListenFails int
	DialTimes                              []time.Duration
	ListenTimes                            []time.Duration
}

// Mark is a (cumulative offset, time) pair.
type Mark struct {
	Off int
	At  time.Duration
}

// WrittenAt returns the time at which cumulative byte off (1-based count) had been accepted from
// the writer, or -1.
func (p *Pipe) WrittenAt(off int) time.Duration { return markAt(p.WMarks, off) }

// CalledAt returns when the Write call that carried the byte at stream offset off (1-based count, as
// for WrittenAt) was issued, -1 if unknown.
func (p *Pipe) CalledAt(off int) time.Duration {
	at := time.Duration(-1)
	for _, m := range p.CMarks {
		if m.Off < off {
			at = m.At
		} else {
			break
		}
	}

	return at
}

// DeliveredAt returns the time at which cumulative byte off had been delivered to the reader side, or -1.
func (p *Pipe) DeliveredAt(off int) time.Duration { return markAt(p.DMarks, off) }

func markAt(ms []Mark, off int) time.Duration {
	for _, m := range ms {
		if m.Off >= off {
			return m.At
		}
	}

	return -1
}

// DialOutcome is what a dial attempt meets.
type DialOutcome struct {
	Kind    int // 0 ok, 1 refused, 2 black hole (until ctx ends)
	Latency time.Duration
}

// SegPlan is one segment of a write: Size bytes arriving Delay after the previous segment.
type SegPlan struct {
	Size  int
	Delay time.Duration
}

// New returns an empty network.
func New(w *core.World) *Net {
	return &Net{W: w, listeners: map[string]*Listener{}, Cap: 1 << 20}
}

func (n *Net) newPipe(name string) *Pipe {
	return &Pipe{n: n, name: name, cap: n.Cap, BrokenOff: -1, CutAt: -1}
}

func (n *Net) newLink(address string) *Link {
	l := &Link{N: n, Gen: len(n.Links) + 1, Addr: address}
	l.a2b = n.newPipe(fmt.Sprintf("L%d.a2b", l.Gen))
	l.b2a = n.newPipe(fmt.Sprintf("L%d.b2a", l.Gen))
	n.Links = append(n.Links, l)

	return l
}

func (n *Net) newConn(l *Link, rd, wr *Pipe, side string) *Conn {
	c := &Conn{n: n, L: l, rd: rd, wr: wr, id: len(n.Conns) + 1, side: side, ClosedAt: -1}
	n.Conns = append(n.Conns, c)

	return c
}

// Dial implements hsms.DialFunc.
func (n *Net) Dial(ctx context.Context, network, address string) (net.Conn, error) {
	c, err := n.dial(ctx, network, address)
	if err == nil {
		// a scheduling point with the established connection in hand (the dialing goroutine may be
		// held here while the rest of the system moves on: a Close crossing a completed dial)
		simhook.Resume("net.Dial.ret")
	}

	return c, err
}

func (n *Net) dial(ctx context.Context, network, address string) (net.Conn, error) {
	simhook.Yield("net.Dial")
	n.mu.Lock()
	n.Dials++
	attempt := n.Dials
	n.DialTimes = append(n.DialTimes, n.W.Now())
	out := DialOutcome{}
	if n.DialPlan != nil {
		out = n.DialPlan(attempt, address)
	}
	n.W.Logf("dial #%d %s kind=%d lat=%d", attempt, address, out.Kind, out.Latency)
	n.mu.Unlock()

	if out.Kind == 2 {
		<-ctx.Done()
		simhook.Resume("net.Dial.wake")
		n.mu.Lock()
		n.DialFails++
		n.mu.Unlock()

		return nil, &net.OpError{Op: "dial", Net: "tcp", Err: ctx.Err()}
	}
	if out.Latency > 0 {
		tm := time.NewTimer(out.Latency)
		select {
		case <-tm.C:
		case <-ctx.Done():
		}
		tm.Stop()
		simhook.Resume("net.Dial.wake")
		if ctx.Err() != nil {
			n.mu.Lock()
			n.DialFails++
			n.mu.Unlock()

			return nil, &net.OpError{Op: "dial", Net: "tcp", Err: ctx.Err()}
		}
	}
	n.mu.Lock()
	if out.Kind == 1 {
		n.DialFails++
		n.mu.Unlock()

		return nil, ErrRefused
	}
	if ln := n.listeners[address]; ln != nil && !ln.closed {
		l := n.newLink(address)
		l.A = n.newConn(l, l.b2a, l.a2b, "dial")
		l.B = n.newConn(l, l.a2b, l.b2a, "acc")
		ln.queue = append(ln.queue, l.B)
		ln.wait.wake()
		n.W.Logf("dial #%d connected to listener link=%d", attempt, l.Gen)
		l.A.Handed = true
		n.mu.Unlock()

		return l.A, nil
	}
	if n.OnConnect == nil {
		n.DialFails++
		n.mu.Unlock()

		return nil, ErrRefused
	}
	l := n.newLink(address)
	l.A = n.newConn(l, l.b2a, l.a2b, "dial")
	n.mu.Unlock()
	raw := n.OnConnect(l)
	n.mu.Lock()
	defer n.mu.Unlock()
	if raw == nil {
		l.Closed = true
		l.a2b.rst, l.b2a.rst = true, true
		l.A.closed = true
		n.DialFails++

		return nil, ErrRefused
	}
	l.Raw = raw
	l.a2b.sink = func(b []byte) { raw.OnData(l, b) }
	l.a2b.onEOF = func() { raw.OnEOF(l) }
	n.W.Logf("dial #%d connected to raw peer link=%d", attempt, l.Gen)
	l.A.Handed = true

	return l.A, nil
}

// PeerConnect is a raw peer dialing a listening endpoint (driver context). It returns nil when
// nothing listens on address (connection refused).
func (n *Net) PeerConnect(address string, raw RawEnd) *Link {
	n.mu.Lock()
	defer n.mu.Unlock()
	ln := n.listeners[address]
	if ln == nil || ln.closed {
		n.W.Logf("peerconnect %s refused", address)

		return nil
	}
	l := n.newLink(address)
	// A is always the library-facing conn.
	l.A = n.newConn(l, l.b2a, l.a2b, "acc")
	l.Raw = raw
	l.a2b.sink = func(b []byte) { raw.OnData(l, b) }
	l.a2b.onEOF = func() { raw.OnEOF(l) }
	ln.queue = append(ln.queue, l.A)
	ln.wait.wake()
	n.W.Logf("peerconnect %s link=%d", address, l.Gen)

	return l
}

// Listen implements hsms.ListenFunc.
func (n *Net) Listen(ctx context.Context, network, address string) (net.Listener, error) {
	simhook.Yield("net.Listen")
	n.mu.Lock()
	defer n.mu.Unlock()
	n.Listens++
	n.ListenTimes = append(n.ListenTimes, n.W.Now())
	if n.ListenPlan != nil {
		if err := n.ListenPlan(n.Listens, address); err != nil {
			n.ListenFails++
			n.W.Logf("listen #%d %s fail", n.Listens, address)

			return nil, err
		}
	}
	if old := n.listeners[address]; old != nil && !old.closed {
		n.ListenFails++
		n.W.Logf("listen #%d %s addrinuse", n.Listens, address)

		return nil, ErrAddrInUse
	}
	ln := &Listener{n: n, address: address, id: len(n.Listeners) + 1}
	n.listeners[address] = ln
	n.Listeners = append(n.Listeners, ln)
	n.W.Logf("listen #%d %s ok", n.Listens, address)

	return ln, nil
}

// Listening reports whether an open listener exists on address.
func (n *Net) Listening(address string) bool {
	n.mu.Lock()
	defer n.mu.Unlock()
	ln := n.listeners[address]

	return ln != nil && !ln.closed
}

// Listener is a simulated net.Listener.
type Listener struct {
	n       *Net
	address string
	id      int
	queue   []*Conn
	closed  bool
	wait    waitq
	Accepts int
}

// Accept waits for the next connection.
func (ln *Listener) Accept() (net.Conn, error) {
	simhook.Yield("net.Accept")
	for {
		ln.n.mu.Lock()
		if ln.closed {
			ln.n.mu.Unlock()

			return nil, &net.OpError{Op: "accept", Net: "tcp", Err: net.ErrClosed}
		}
		if len(ln.queue) > 0 {
			c := ln.queue[0]
			ln.queue = ln.queue[1:]
			ln.Accepts++
			c.Handed = true
			ln.n.W.Logf("accept ln%d conn=%d", ln.id, c.id)
			ln.n.mu.Unlock()
			// a scheduling point with the accepted connection in hand (the goroutine may be held here
			// while the rest of the system moves on: the late-accept window)
			simhook.Resume("net.Accept.ret")

			return c, nil
		}
		ch := ln.wait.add()
		ln.n.mu.Unlock()
		<-ch
		simhook.Resume("net.Accept.wake")
	}
}

// Close closes the listener; queued, never accepted connections are reset.
func (ln *Listener) Close() error {
	simhook.Yield("net.LnClose")
	ln.n.mu.Lock()
	if ln.closed {
		ln.n.mu.Unlock()

		return &net.OpError{Op: "close", Net: "tcp", Err: net.ErrClosed}
	}
	ln.closed = true
	q := ln.queue
	ln.queue = nil
	if ln.n.listeners[ln.address] == ln {
		delete(ln.n.listeners, ln.address)
	}
	ln.wait.wake()
	ln.n.W.Logf("lnclose ln%d", ln.id)
	ln.n.mu.Unlock()
	for _, c := range q {
		c.L.RST()
	}

	return nil
}

// Closed reports whether Close was called.
func (ln *Listener) Closed() bool { return ln.closed }

// Addr returns the listen address.
func (ln *Listener) Addr() net.Addr { return addr(ln.address) }

// Conn is a simulated net.Conn.
type Conn struct {
	n      *Net
	L      *Link
	rd, wr *Pipe
	id     int
	side   string
	closed bool
	rdl    time.Time
	wdl    time.Time

	Reads, Writes int
	CloseCalls    int
	// ClosedAt is the simulated time of the first Close call on this end (-1 = never closed).
	ClosedAt time.Duration
	// Handed reports whether this end was actually handed to its user (returned by Dial / Accept).
	// A connection that only ever sat in a listener's backlog was never the user's to close.
	Handed bool
}

// ID returns the connection's ordinal.
func (c *Conn) ID() int { return c.id }

// IsClosed reports whether Close was called on this end.
func (c *Conn) IsClosed() bool { return c.closed }

type timeoutErr struct{}

func (timeoutErr) Error() string   { return "i/o timeout" }
func (timeoutErr) Timeout() bool   { return true }
func (timeoutErr) Temporary() bool { return true }
func (timeoutErr) Is(t error) bool { return t == os.ErrDeadlineExceeded }

func opErr(op string, err error) error { return &net.OpError{Op: op, Net: "tcp", Err: err} }

// Read implements net.Conn.
func (c *Conn) Read(b []byte) (int, error) {
	simhook.Yield("net.Read")
	for {
		c.n.mu.Lock()
		p := c.rd
		switch {
		case c.closed:
			c.n.mu.Unlock()

			return 0, opErr("read", net.ErrClosed)
		case p.rst:
			c.n.mu.Unlock()

			return 0, ErrReset
		case !c.rdl.IsZero() && !time.Now().Before(c.rdl):
			c.n.mu.Unlock()

			return 0, opErr("read", timeoutErr{})
		case len(b) == 0:
			c.n.mu.Unlock()

			return 0, nil
		case len(p.rcv) > 0:
			n := len(p.rcv)
			if n > len(b) {
				n = len(b)
			}
			if c.n.ShortRead != nil && n > 1 {
				if k := c.n.ShortRead(n); k >= 1 && k < n {
					n = k
				}
			}
			copy(b, p.rcv[:n])
			p.rcv = p.rcv[n:]
			c.Reads++
			p.wwait.wake()
			c.n.W.Logf("read c%d n=%d", c.id, n)
			if c.n.EOFWithData && len(p.rcv) == 0 && p.eof {
				c.n.W.Probe("read_returned_data_with_eof")
				c.n.mu.Unlock()

				return n, io.EOF
			}
			c.n.mu.Unlock()

			return n, nil
		case p.eof:
			c.n.mu.Unlock()

			return 0, io.EOF
		}
		ch := p.rwait.add()
		dl := c.rdl
		c.n.mu.Unlock()
		if dl.IsZero() {
			<-ch
		} else {
			tm := time.NewTimer(time.Until(dl))
			select {
			case <-ch:
			case <-tm.C:
			}
			tm.Stop()
		}
		simhook.Resume("net.Read.wake")
	}
}

// Write implements net.Conn.
func (c *Conn) Write(b []byte) (int, error) {
	n, err := c.write(b)
	if err != nil {
		c.n.mu.Lock()
		if c.wr.BrokenOff < 0 {
			c.wr.BrokenOff = c.wr.Written
			c.n.W.Logf("write c%d failed at stream offset %d: %v", c.id, c.wr.Written, err)
		}
		c.n.mu.Unlock()
	}

	return n, err
}

func (c *Conn) write(b []byte) (int, error) {
	simhook.Yield("net.Write")
	total := 0
	first := true
	for {
		c.n.mu.Lock()
		p := c.wr
		switch {
		case c.closed:
			c.n.mu.Unlock()

			return total, opErr("write", net.ErrClosed)
		case p.rst:
			c.n.mu.Unlock()

			return total, ErrPipe
		case !c.wdl.IsZero() && !time.Now().Before(c.wdl):
			c.n.mu.Unlock()

			return total, opErr("write", timeoutErr{})
		}
		if first {
			first = false
			c.Writes++
			p.CMarks = append(p.CMarks, Mark{p.Written, c.n.W.Now()})
			if c.n.WriteFault != nil {
				if k, err := c.n.WriteFault(c, len(b)); err != nil {
					if k > len(b) {
						k = len(b)
					}
					if k > 0 {
						p.enqueue(b[:k])
					}
					c.n.W.Logf("write c%d torn k=%d of %d", c.id, k, len(b))
					c.n.mu.Unlock()

					return k, err
				}
			}
		}
		if len(b) == total {
			c.n.mu.Unlock()

			return total, nil
		}
		space := p.cap - (p.infl + len(p.rcv))
		if space > 0 {
			n := len(b) - total
			if n > space {
				n = space
			}
			p.enqueue(b[total : total+n])
			total += n
			c.n.W.Logf("write c%d n=%d", c.id, n)
			if total == len(b) {
				c.n.mu.Unlock()

				return total, nil
			}
		}
		ch := p.wwait.add()
		dl := c.wdl
		c.n.W.Probe("write_blocked")
		c.n.mu.Unlock()
		if dl.IsZero() {
			<-ch
		} else {
			tm := time.NewTimer(time.Until(dl))
			select {
			case <-ch:
			case <-tm.C:
			}
			tm.Stop()
		}
		simhook.Resume("net.Write.wake")
	}
}

// Close implements net.Conn.
func (c *Conn) Close() error {
	simhook.Yield("net.Close")
	c.n.mu.Lock()
	c.CloseCalls++
	if c.closed {
		c.n.mu.Unlock()

		return opErr("close", net.ErrClosed)
	}
	c.closed = true
	c.ClosedAt = c.n.W.Now()
	c.rd.rwait.wake()
	c.wr.wwait.wake()
	c.rd.readerGone = true
	c.rd.wwait.wake()
	if !c.wr.rst && !c.wr.finSent {
		c.wr.enqueueFIN()
	}
	c.n.W.Logf("close c%d", c.id)
	c.n.mu.Unlock()

	return nil
}

// LocalAddr implements net.Conn.
func (c *Conn) LocalAddr() net.Addr { return addr("sim-local") }

// RemoteAddr implements net.Conn.
func (c *Conn) RemoteAddr() net.Addr { return addr("sim-remote") }

// SetDeadline implements net.Conn.
func (c *Conn) SetDeadline(t time.Time) error {
	c.n.mu.Lock()
	defer c.n.mu.Unlock()
	if c.closed {
		return opErr("set", net.ErrClosed)
	}
	c.rdl, c.wdl = t, t
	c.rd.rwait.wake()
	c.wr.wwait.wake()

	return nil
}

// SetReadDeadline implements net.Conn.
func (c *Conn) SetReadDeadline(t time.Time) error {
	c.n.mu.Lock()
	defer c.n.mu.Unlock()
	if c.closed {
		return opErr("set", net.ErrClosed)
	}
	c.rdl = t
	c.rd.rwait.wake()

	return nil
}

// SetWriteDeadline implements net.Conn.
func (c *Conn) SetWriteDeadline(t time.Time) error {
	c.n.mu.Lock()
	defer c.n.mu.Unlock()
	if c.closed {
		return opErr("set", net.ErrClosed)
	}
	c.wdl = t
	c.wr.wwait.wake()

	return nil
}

// ---- pipe mechanics (callers hold n.mu) ----

func (p *Pipe) enqueue(b []byte) {
	if len(b) == 0 {
		return
	}
	p.Written += len(b)
	p.WMarks = append(p.WMarks, Mark{p.Written, p.n.W.Now()})
	if p.n.KeepLog {
		p.WLog = append(p.WLog, b...)
	}
	if p.readerGone && p.sink == nil {
		return // the other end has closed: bytes vanish
	}
	if p.n.Mangle != nil {
		if b = p.n.Mangle(p, b); len(b) == 0 {
			return
		}
	}
	plans := []SegPlan{{Size: len(b), Delay: p.n.LatMin}}
	if p.n.Seg != nil {
		plans = p.n.Seg(p, len(b))
	}
	if k := len(p.segs); p.n.Coalesce != nil && k > 0 && !p.segs[k-1].fin && !p.stalled && len(plans) == 1 && plans[0].Delay <= p.n.LatMin && p.n.Coalesce(p) {
		p.segs[k-1].data = append(p.segs[k-1].data, b...)
		p.infl += len(b)

		return
	}
	now := p.n.W.Now()
	at := p.last
	if at < now {
		at = now
	}
	off := 0
	for _, sp := range plans {
		if off >= len(b) {
			break
		}
		sz := sp.Size
		if sz <= 0 || off+sz > len(b) {
			sz = len(b) - off
		}
		at += sp.Delay
		p.segs = append(p.segs, segment{data: append([]byte(nil), b[off:off+sz]...), at: at})
		p.infl += sz
		off += sz
	}
	if off < len(b) {
		p.segs = append(p.segs, segment{data: append([]byte(nil), b[off:]...), at: at})
		p.infl += len(b) - off
	}
	p.last = at
	p.arm()
}

func (p *Pipe) enqueueFIN() {
	p.finSent = true
	now := p.n.W.Now()
	at := p.last
	if at < now {
		at = now
	}
	at += p.n.LatMin
	p.segs = append(p.segs, segment{fin: true, at: at})
	p.last = at
	p.arm()
}

// arm schedules the delivery of the head segment.
func (p *Pipe) arm() {
	if p.ev != nil || p.stalled || len(p.segs) == 0 || p.rst {
		return
	}
	at := p.segs[0].at
	p.ev = p.n.W.At(at, "deliver "+p.name, func() {
		p.n.mu.Lock()
		p.ev = nil
		if p.stalled || p.rst || len(p.segs) == 0 {
			p.n.mu.Unlock()

			return
		}
		s := p.segs[0]
		p.segs = p.segs[1:]
		var sink func([]byte)
		var onEOF, onCut func()
		if s.fin {
			p.eof = true
			p.finAt = p.n.W.Now()
			p.finSeen = true
			p.rwait.wake()
			onEOF = p.onEOF
			p.n.W.Logf("deliver %s FIN", p.name)
		} else {
			p.infl -= len(s.data)
			if p.cutDone {
				// behind the cut: the bytes vanish
				p.arm()
				p.n.mu.Unlock()

				return
			}
			if p.CutAt >= 0 && p.Delivered+len(s.data) >= p.CutAt {
				s.data = s.data[:p.CutAt-p.Delivered]
				p.cutDone = true
				onCut = p.OnCut
			}
			p.Delivered += len(s.data)
			p.DMarks = append(p.DMarks, Mark{p.Delivered, p.n.W.Now()})
			if p.n.EOFWithData && p.sink == nil && !p.cutDone && len(p.segs) > 0 && p.segs[0].fin {
				// the FIN rides on the last data segment
				p.segs = p.segs[1:]
				p.eof = true
				p.finAt = p.n.W.Now()
				p.finSeen = true
				onEOF = p.onEOF
				p.n.W.Logf("deliver %s FIN (with the data)", p.name)
			}
			if p.sink != nil {
				sink = p.sink
				p.wwait.wake()
			} else {
				p.rcv = append(p.rcv, s.data...)
				p.rwait.wake()
			}
			p.n.W.Logf("deliver %s n=%d", p.name, len(s.data))
		}
		p.arm()
		p.n.mu.Unlock()
		if sink != nil && len(s.data) > 0 {
			sink(s.data)
		}
		if onEOF != nil {
			onEOF()
		}
		if onCut != nil {
			onCut()
		}
	})
}

// ---- link-level operations for raw peers and fault injection (driver context) ----

// Send queues bytes from the raw peer towards the library end; each chunk arrives Delay after the
// previous one (or after now for the first).
func (l *Link) Send(chunks ...Chunk) {
	l.N.mu.Lock()
	defer l.N.mu.Unlock()
	p := l.b2a
	if p.rst || p.finSent {
		return
	}
	now := l.N.W.Now()
	at := p.last
	if at < now {
		at = now
	}
	for _, c := range chunks {
		if len(c.Data) == 0 {
			at += c.Delay

			continue
		}
		if k := len(p.segs); l.N.Coalesce != nil && k > 0 && !p.segs[k-1].fin && !p.stalled && c.Delay <= l.N.LatMin && l.N.Coalesce(p) {
			p.segs[k-1].data = append(p.segs[k-1].data, c.Data...)
		} else {
			at += c.Delay
			p.segs = append(p.segs, segment{data: append([]byte(nil), c.Data...), at: at})
		}
		p.infl += len(c.Data)
		p.Written += len(c.Data)
		p.WMarks = append(p.WMarks, Mark{p.Written, now})
	}
	p.last = at
	p.arm()
}

// Chunk is a piece of a raw peer transmission.
type Chunk struct {
	Data  []byte
	Delay time.Duration
}

// FIN closes the raw peer's sending direction in an orderly way (after queued data).
func (l *Link) FIN() {
	l.N.mu.Lock()
	defer l.N.mu.Unlock()
	if !l.b2a.rst && !l.b2a.finSent {
		l.b2a.enqueueFIN()
	}
}

// RST resets the connection: both directions fail at once, bytes in flight are lost.
func (l *Link) RST() {
	l.N.mu.Lock()
	if l.Closed {
		l.N.mu.Unlock()

		return
	}
	l.Closed = true
	for _, p := range []*Pipe{l.a2b, l.b2a} {
		p.rst = true
		p.rstAt = l.N.W.Now()
		p.segs = nil
		p.infl = 0
		if p.ev != nil {
			l.N.W.Cancel(p.ev)
			p.ev = nil
		}
		p.rwait.wake()
		p.wwait.wake()
	}
	raw := l.Raw
	l.N.W.Logf("rst link=%d", l.Gen)
	l.N.mu.Unlock()
	if raw != nil {
		raw.OnRST(l)
	}
}

// Stall pauses deliveries in one direction (toLib: bytes flowing towards the library end A) for
// d; d <= 0 stalls forever.
func (l *Link) Stall(toLib bool, d time.Duration) {
	l.N.mu.Lock()
	defer l.N.mu.Unlock()
	p := l.a2b
	if toLib {
		p = l.b2a
	}
	p.stalled = true
	if p.ev != nil {
		l.N.W.Cancel(p.ev)
		p.ev = nil
	}
	l.N.W.Logf("stall %s d=%d", p.name, d)
	if d > 0 {
		l.N.W.After(d, "unstall "+p.name, func() {
			l.N.mu.Lock()
			p.stalled = false
			now := l.N.W.Now()
			for i := range p.segs {
				if p.segs[i].at < now {
					p.segs[i].at = now
				}
			}
			p.arm()
			l.N.mu.Unlock()
		})
	}
}

// SetCap sets the buffering capacity of the library end's send direction (sndfull fault when
// combined with Stall(false, …)).
func (l *Link) SetCap(n int) {
	l.N.mu.Lock()
	defer l.N.mu.Unlock()
	l.a2b.cap = n
}

// ToPeer returns the pipe carrying bytes written by the library end A.
func (l *Link) ToPeer() *Pipe { return l.a2b }

// ToLib returns the pipe carrying bytes towards the library end A.
func (l *Link) ToLib() *Pipe { return l.b2a }

// FinDeliveredAt returns when an orderly close reached this pipe's reader side (-1 = never).
func (p *Pipe) FinDeliveredAt() time.Duration {
	if !p.finSeen {
		return -1
	}

	return p.finAt
}

// RstAt returns when the pipe was reset (-1 = never).
func (p *Pipe) RstAt() time.Duration {
	if !p.rst {
		return -1
	}

	return p.rstAt
}

// Unread returns the number of bytes delivered to this pipe's reader but not read yet.
func (p *Pipe) Unread() int { return len(p.rcv) }

// InFlight returns the bytes written but not yet delivered.
func (p *Pipe) InFlight() int { return p.infl }

// Name returns the pipe's name.
func (p *Pipe) Name() string { return p.name }

var _ = errors.New
