module verifinstrument

go 1.26
