// Command instrument rewrites a scratch copy of the module under test for deterministic
// simulation (DESIGN.md §2.1). It never touches /repo.
//
//	instrument -root <scratch-module-root> [-pkgs hsms,hsmsss,secs1,internal,integration]
//
// For every .go file below the listed directories:
//   - "sync"        -> sync   "<module>/verifsim/simsync"
//   - "sync/atomic" -> atomic "<module>/verifsim/simatomic"
//
// and, for non-test files only:
//   - statement-level channel sends/receives get simhook.Yield before and simhook.Resume after;
//   - select statements with >= 2 communication clauses are rewritten so that the poll order is
//     a scheduler decision (poll pass in simhook.Order order, then the original blocking select);
//   - go statements are wrapped so that the child gets a logical goroutine id and parks first;
//   - time.Sleep statements and range-over-channel bodies get a Resume.
//
// Only go/ast, go/parser, go/printer are used; no type information is needed.
package main

import (
	"bytes"
	"flag"
	"fmt"
	"go/ast"
	"go/parser"
	"go/printer"
	"go/token"
	"os"
	"path/filepath"
	"reflect"
	"sort"
	"strconv"
	"strings"
)

const modPath = "github.com/arloliu/go-secs/v2"

var (
	root    = flag.String("root", "", "scratch module root")
	pkgs    = flag.String("pkgs", "hsms,hsmsss,secs1,internal,integration", "comma separated directories (recursive)")
	verbose = flag.Bool("v", false, "verbose")
)

type stats struct {
	files, swapped, selects, selectsSingle, chanOps, goStmts, sleeps, ranges int
	warnings                                                                []string
}

var st stats

func main() {
	flag.Parse()
	if *root == "" {
		fmt.Fprintln(os.Stderr, "instrument: -root required")
		os.Exit(2)
	}
	for _, p := range strings.Split(*pkgs, ",") {
		dir := filepath.Join(*root, p)
		if _, err := os.Stat(dir); err != nil {
			continue
		}
		err := filepath.Walk(dir, func(path string, info os.FileInfo, err error) error {
			if err != nil {
				return err
			}
			if info.IsDir() {
				if info.Name() == "testdata" {
					return filepath.SkipDir
				}

				return nil
			}
			if !strings.HasSuffix(path, ".go") {
				return nil
			}

			return processFile(path)
		})
		if err != nil {
			fmt.Fprintln(os.Stderr, "instrument:", err)
			os.Exit(2)
		}
	}
	fmt.Printf("instrument: files=%d swapped=%d selects=%d single-selects=%d chanops=%d go=%d sleeps=%d ranges=%d warnings=%d\n",
		st.files, st.swapped, st.selects, st.selectsSingle, st.chanOps, st.goStmts, st.sleeps, st.ranges, len(st.warnings))
	for _, w := range st.warnings {
		fmt.Println("instrument: WARNING:", w)
	}
}

type fileCtx struct {
	fset      *token.FileSet
	rel       string
	chanNames map[string]bool
	needHook  bool
	labelN    int
	usedTime  string // local name of package time ("" if not imported)
}

func processFile(path string) error {
	src, err := os.ReadFile(path)
	if err != nil {
		return err
	}
	fset := token.NewFileSet()
	isTest := strings.HasSuffix(path, "_test.go")
	mode := parser.ParseComments
	f, err := parser.ParseFile(fset, path, src, mode)
	if err != nil {
		return fmt.Errorf("parse %s: %w", path, err)
	}
	st.files++
	rel, _ := filepath.Rel(*root, path)

	changed := swapImports(f)
	fc := &fileCtx{fset: fset, rel: rel, chanNames: map[string]bool{}}
	for _, im := range f.Imports {
		if p, _ := strconv.Unquote(im.Path.Value); p == "time" {
			fc.usedTime = "time"
			if im.Name != nil {
				fc.usedTime = im.Name.Name
			}
		}
	}
	if !isTest {
		collectChanNames(f, fc.chanNames)
		for _, d := range f.Decls {
			fd, ok := d.(*ast.FuncDecl)
			if !ok || fd.Body == nil {
				continue
			}
			fc.rewriteBlock(fd.Body, nil)
		}
		// function literals at package level (var x = func(){...})
		for _, d := range f.Decls {
			if gd, ok := d.(*ast.GenDecl); ok {
				fc.rewriteFuncLitsIn(gd)
			}
		}
		if fc.needHook {
			addImport(f, "simhook", modPath+"/verifsim/simhook")
			changed = true
		}
	}
	if !changed {
		return nil
	}
	st.swapped++

	// Header: everything before the package clause is carried over verbatim (build constraints,
	// license). Non-test files are printed without comments (the rewriting moves nodes around and
	// go/printer would misplace them); test files keep theirs (only the import block changed).
	pkgOff := fset.Position(f.Package).Offset
	header := src[:pkgOff]
	var buf bytes.Buffer
	if isTest {
		if err := printer.Fprint(&buf, fset, f); err != nil {
			return err
		}

		return os.WriteFile(path, buf.Bytes(), 0o644)
	}
	f.Comments = nil
	f.Doc = nil
	stripDocs(f)
	buf.Write(keepConstraints(header))
	if err := (&printer.Config{Mode: printer.UseSpaces | printer.TabIndent, Tabwidth: 8}).Fprint(&buf, token.NewFileSet(), f); err != nil {
		return err
	}

	return os.WriteFile(path, buf.Bytes(), 0o644)
}

// keepConstraints keeps only //go:build and // +build lines (plus a blank line after them).
func keepConstraints(header []byte) []byte {
	var out bytes.Buffer
	for _, line := range strings.Split(string(header), "\n") {
		t := strings.TrimSpace(line)
		if strings.HasPrefix(t, "//go:build") || strings.HasPrefix(t, "// +build") {
			out.WriteString(t + "\n")
		}
	}
	if out.Len() > 0 {
		out.WriteString("\n")
	}

	return out.Bytes()
}

func stripDocs(f *ast.File) {
	ast.Inspect(f, func(n ast.Node) bool {
		switch x := n.(type) {
		case *ast.FuncDecl:
			x.Doc = nil
		case *ast.GenDecl:
			x.Doc = nil
		case *ast.TypeSpec:
			x.Doc, x.Comment = nil, nil
		case *ast.ValueSpec:
			x.Doc, x.Comment = nil, nil
		case *ast.Field:
			x.Doc, x.Comment = nil, nil
		case *ast.ImportSpec:
			x.Doc, x.Comment = nil, nil
		}

		return true
	})
}

func swapImports(f *ast.File) bool {
	changed := false
	for _, im := range f.Imports {
		p, _ := strconv.Unquote(im.Path.Value)
		switch p {
		case "sync":
			name := "sync"
			if im.Name != nil {
				name = im.Name.Name
			}
			im.Name = ast.NewIdent(name)
			im.Path.Value = strconv.Quote(modPath + "/verifsim/simsync")
			im.EndPos = 0
			changed = true
		case "sync/atomic":
			name := "atomic"
			if im.Name != nil {
				name = im.Name.Name
			}
			im.Name = ast.NewIdent(name)
			im.Path.Value = strconv.Quote(modPath + "/verifsim/simatomic")
			im.EndPos = 0
			changed = true
		}
	}

	return changed
}

func addImport(f *ast.File, name, path string) {
	for _, im := range f.Imports {
		if p, _ := strconv.Unquote(im.Path.Value); p == path {
			return
		}
	}
	spec := &ast.ImportSpec{Name: ast.NewIdent(name), Path: &ast.BasicLit{Kind: token.STRING, Value: strconv.Quote(path)}}
	for _, d := range f.Decls {
		if gd, ok := d.(*ast.GenDecl); ok && gd.Tok == token.IMPORT {
			gd.Specs = append(gd.Specs, spec)
			if len(gd.Specs) > 1 && !gd.Lparen.IsValid() {
				gd.Lparen = gd.Pos()
				gd.Rparen = gd.End()
			}
			f.Imports = append(f.Imports, spec)

			return
		}
	}
	gd := &ast.GenDecl{Tok: token.IMPORT, Specs: []ast.Spec{spec}}
	f.Decls = append([]ast.Decl{gd}, f.Decls...)
	f.Imports = append(f.Imports, spec)
}

// collectChanNames records identifiers syntactically declared with a channel type, so that
// `for x := range <name>` can be recognised as a range over a channel without type information.
func collectChanNames(f *ast.File, names map[string]bool) {
	isChan := func(e ast.Expr) bool {
		switch t := e.(type) {
		case *ast.ChanType:
			return true
		case *ast.CallExpr:
			if id, ok := t.Fun.(*ast.Ident); ok && id.Name == "make" && len(t.Args) > 0 {
				_, ok := t.Args[0].(*ast.ChanType)

				return ok
			}
		}

		return false
	}
	ast.Inspect(f, func(n ast.Node) bool {
		switch x := n.(type) {
		case *ast.Field:
			if isChan(x.Type) {
				for _, id := range x.Names {
					names[id.Name] = true
				}
			}
		case *ast.ValueSpec:
			if x.Type != nil && isChan(x.Type) {
				for _, id := range x.Names {
					names[id.Name] = true
				}
			}
			for i, v := range x.Values {
				if isChan(v) && i < len(x.Names) {
					names[x.Names[i].Name] = true
				}
			}
		case *ast.AssignStmt:
			for i, v := range x.Rhs {
				if isChan(v) && i < len(x.Lhs) {
					switch l := x.Lhs[i].(type) {
					case *ast.Ident:
						names[l.Name] = true
					case *ast.SelectorExpr:
						names[l.Sel.Name] = true
					}
				}
			}
		}

		return true
	})
}

func (fc *fileCtx) site(n ast.Node, kind string) *ast.BasicLit {
	p := fc.fset.Position(n.Pos())

	return &ast.BasicLit{Kind: token.STRING, Value: strconv.Quote(fmt.Sprintf("%s@%s:%d", kind, fc.rel, p.Line))}
}

func (fc *fileCtx) hookCall(fn string, site *ast.BasicLit) ast.Stmt {
	fc.needHook = true

	return &ast.ExprStmt{X: &ast.CallExpr{
		Fun:  &ast.SelectorExpr{X: ast.NewIdent("simhook"), Sel: ast.NewIdent(fn)},
		Args: []ast.Expr{site},
	}}
}

// loopInfo describes the innermost enclosing for/range statement of a statement list, so that an
// unlabelled `continue` inside a rewritten select can be retargeted.
type loopInfo struct {
	label   string
	setName func(string) // installs a label on the loop if it has none
}

func (fc *fileCtx) rewriteFuncLitsIn(n ast.Node) {
	ast.Inspect(n, func(m ast.Node) bool {
		if fl, ok := m.(*ast.FuncLit); ok {
			fc.rewriteBlock(fl.Body, nil)

			return false
		}

		return true
	})
}

// rewriteBlock rewrites b in place.
func (fc *fileCtx) rewriteBlock(b *ast.BlockStmt, loop *loopInfo) {
	if b == nil {
		return
	}
	b.List = fc.rewriteList(b.List, loop)
}

func (fc *fileCtx) rewriteList(list []ast.Stmt, loop *loopInfo) []ast.Stmt {
	out := make([]ast.Stmt, 0, len(list))
	for _, s := range list {
		out = append(out, fc.rewriteStmt(s, loop)...)
	}

	return out
}

func isRecv(e ast.Expr) bool {
	for {
		p, ok := e.(*ast.ParenExpr)
		if !ok {
			break
		}
		e = p.X
	}
	u, ok := e.(*ast.UnaryExpr)

	return ok && u.Op == token.ARROW
}

func (fc *fileCtx) rewriteStmt(s ast.Stmt, loop *loopInfo) []ast.Stmt {
	switch x := s.(type) {
	case *ast.BlockStmt:
		fc.rewriteBlock(x, loop)

		return []ast.Stmt{x}

	case *ast.LabeledStmt:
		// A labelled loop: let the loop know its label.
		switch inner := x.Stmt.(type) {
		case *ast.ForStmt:
			li := &loopInfo{label: x.Label.Name}
			fc.rewriteFuncLitsInSimple(inner.Init, inner.Cond, inner.Post)
			fc.rewriteBlock(inner.Body, li)

			return []ast.Stmt{x}
		case *ast.RangeStmt:
			li := &loopInfo{label: x.Label.Name}
			fc.rewriteFuncLitsIn(inner.X)
			fc.rewriteBlock(inner.Body, li)
			fc.maybeRangeHook(inner)

			return []ast.Stmt{x}
		default:
			r := fc.rewriteStmt(x.Stmt, loop)
			if len(r) == 1 {
				x.Stmt = r[0]

				return []ast.Stmt{x}
			}
			x.Stmt = &ast.BlockStmt{List: r}

			return []ast.Stmt{x}
		}

	case *ast.IfStmt:
		if x.Init != nil {
			fc.rewriteFuncLitsIn(x.Init)
			fc.warnExprRecv(x.Init)
		}
		fc.rewriteFuncLitsIn(x.Cond)
		fc.warnExprRecv(&ast.ExprStmt{X: x.Cond})
		fc.rewriteBlock(x.Body, loop)
		if x.Else != nil {
			r := fc.rewriteStmt(x.Else, loop)
			if len(r) == 1 {
				x.Else = r[0]
			} else {
				x.Else = &ast.BlockStmt{List: r}
			}
		}

		return []ast.Stmt{x}

	case *ast.ForStmt:
		var lbl *ast.LabeledStmt
		li := &loopInfo{}
		li.setName = func(name string) {
			li.label = name
			lbl = &ast.LabeledStmt{Label: ast.NewIdent(name), Stmt: x}
		}
		fc.rewriteFuncLitsInSimple(x.Init, x.Cond, x.Post)
		fc.rewriteBlock(x.Body, li)
		if lbl != nil {
			return []ast.Stmt{lbl}
		}

		return []ast.Stmt{x}

	case *ast.RangeStmt:
		var lbl *ast.LabeledStmt
		li := &loopInfo{}
		li.setName = func(name string) {
			li.label = name
			lbl = &ast.LabeledStmt{Label: ast.NewIdent(name), Stmt: x}
		}
		fc.rewriteFuncLitsIn(x.X)
		fc.rewriteBlock(x.Body, li)
		fc.maybeRangeHook(x)
		if lbl != nil {
			return []ast.Stmt{lbl}
		}

		return []ast.Stmt{x}

	case *ast.SwitchStmt:
		if x.Init != nil {
			fc.rewriteFuncLitsIn(x.Init)
		}
		if x.Tag != nil {
			fc.rewriteFuncLitsIn(x.Tag)
		}
		for _, c := range x.Body.List {
			cc := c.(*ast.CaseClause)
			cc.Body = fc.rewriteList(cc.Body, loop)
		}

		return []ast.Stmt{x}

	case *ast.TypeSwitchStmt:
		for _, c := range x.Body.List {
			cc := c.(*ast.CaseClause)
			cc.Body = fc.rewriteList(cc.Body, loop)
		}

		return []ast.Stmt{x}

	case *ast.SelectStmt:
		return fc.rewriteSelect(x, loop)

	case *ast.SendStmt:
		fc.rewriteFuncLitsIn(x.Value)
		st.chanOps++
		site := fc.site(x, "send")

		return []ast.Stmt{fc.hookCall("Yield", site), x, fc.hookCall("Resume", site)}

	case *ast.ExprStmt:
		fc.rewriteFuncLitsIn(x.X)
		if isRecv(x.X) {
			st.chanOps++
			site := fc.site(x, "recv")

			return []ast.Stmt{fc.hookCall("Yield", site), x, fc.hookCall("Resume", site)}
		}
		if call, ok := x.X.(*ast.CallExpr); ok && fc.usedTime != "" {
			if sel, ok := call.Fun.(*ast.SelectorExpr); ok && sel.Sel.Name == "Sleep" {
				if id, ok := sel.X.(*ast.Ident); ok && id.Name == fc.usedTime {
					st.sleeps++
					site := fc.site(x, "sleep")

					return []ast.Stmt{fc.hookCall("Yield", site), x, fc.hookCall("Resume", site)}
				}
			}
		}
		fc.warnExprRecv(x)

		return []ast.Stmt{x}

	case *ast.AssignStmt:
		for _, r := range x.Rhs {
			fc.rewriteFuncLitsIn(r)
		}
		if len(x.Rhs) == 1 && isRecv(x.Rhs[0]) {
			st.chanOps++
			site := fc.site(x, "recv")

			return []ast.Stmt{fc.hookCall("Yield", site), x, fc.hookCall("Resume", site)}
		}
		fc.warnExprRecv(x)

		return []ast.Stmt{x}

	case *ast.GoStmt:
		return fc.rewriteGo(x)

	case *ast.DeferStmt:
		fc.rewriteFuncLitsIn(x.Call)

		return []ast.Stmt{x}

	case *ast.ReturnStmt:
		for _, r := range x.Results {
			fc.rewriteFuncLitsIn(r)
		}
		fc.warnExprRecv(x)

		return []ast.Stmt{x}

	case *ast.DeclStmt:
		fc.rewriteFuncLitsIn(x.Decl)
		fc.warnExprRecv(x)

		return []ast.Stmt{x}

	default:
		return []ast.Stmt{s}
	}
}

func (fc *fileCtx) rewriteFuncLitsInSimple(nodes ...ast.Node) {
	for _, n := range nodes {
		if n == nil || reflect.ValueOf(n).IsNil() {
			continue
		}
		fc.rewriteFuncLitsIn(n)
	}
}

// warnExprRecv reports a channel receive that is not at statement level (it gets no hook).
func (fc *fileCtx) warnExprRecv(n ast.Node) {
	if n == nil {
		return
	}
	ast.Inspect(n, func(m ast.Node) bool {
		switch x := m.(type) {
		case *ast.FuncLit:
			return false
		case *ast.UnaryExpr:
			if x.Op == token.ARROW {
				p := fc.fset.Position(x.Pos())
				st.warnings = append(st.warnings, fmt.Sprintf("%s:%d: expression-level channel receive is not hooked", fc.rel, p.Line))
			}
		}

		return true
	})
}

func (fc *fileCtx) maybeRangeHook(r *ast.RangeStmt) {
	name := ""
	switch x := r.X.(type) {
	case *ast.Ident:
		name = x.Name
	case *ast.SelectorExpr:
		name = x.Sel.Name
	}
	if name == "" || !fc.chanNames[name] || r.Value != nil {
		return
	}
	st.ranges++
	site := fc.site(r, "range")
	r.Body.List = append([]ast.Stmt{fc.hookCall("Resume", site)}, r.Body.List...)
}

func (fc *fileCtx) rewriteGo(g *ast.GoStmt) []ast.Stmt {
	st.goStmts++
	fc.needHook = true
	site := fc.site(g, "go")
	call := g.Call
	var pre []ast.Stmt
	tok := ast.NewIdent("_simtok")

	var inner *ast.CallExpr
	if fl, ok := call.Fun.(*ast.FuncLit); ok && len(call.Args) == 0 {
		fc.rewriteBlock(fl.Body, nil)
		inner = &ast.CallExpr{Fun: fl}
	} else {
		for _, a := range call.Args {
			fc.rewriteFuncLitsIn(a)
		}
		fc.rewriteFuncLitsIn(call.Fun)
		// evaluate the function value and the arguments in the parent, as the go statement does
		fv := ast.NewIdent("_simfn")
		pre = append(pre, &ast.AssignStmt{Lhs: []ast.Expr{fv}, Tok: token.DEFINE, Rhs: []ast.Expr{call.Fun}})
		args := make([]ast.Expr, len(call.Args))
		for i, a := range call.Args {
			switch a.(type) {
			case *ast.BasicLit:
				args[i] = a
			default:
				v := ast.NewIdent("_simarg" + strconv.Itoa(i))
				pre = append(pre, &ast.AssignStmt{Lhs: []ast.Expr{v}, Tok: token.DEFINE, Rhs: []ast.Expr{a}})
				args[i] = v
			}
		}
		inner = &ast.CallExpr{Fun: fv, Args: args, Ellipsis: call.Ellipsis}
		if call.Ellipsis.IsValid() {
			inner.Ellipsis = 1
		}
	}
	_ = site
	pre = append(pre, &ast.AssignStmt{Lhs: []ast.Expr{tok}, Tok: token.DEFINE, Rhs: []ast.Expr{&ast.CallExpr{
		Fun: &ast.SelectorExpr{X: ast.NewIdent("simhook"), Sel: ast.NewIdent("Spawn")},
	}}})
	body := &ast.BlockStmt{List: []ast.Stmt{
		&ast.ExprStmt{X: &ast.CallExpr{Fun: &ast.SelectorExpr{X: ast.NewIdent("simhook"), Sel: ast.NewIdent("Enter")}, Args: []ast.Expr{tok}}},
		&ast.DeferStmt{Call: &ast.CallExpr{Fun: &ast.SelectorExpr{X: ast.NewIdent("simhook"), Sel: ast.NewIdent("Exit")}}},
		&ast.ExprStmt{X: inner},
	}}
	goStmt := &ast.GoStmt{Call: &ast.CallExpr{Fun: &ast.FuncLit{Type: &ast.FuncType{Params: &ast.FieldList{}}, Body: body}}}
	pre = append(pre, goStmt)

	return []ast.Stmt{&ast.BlockStmt{List: pre}}
}

// ---- select ----

func hasLabelDecl(list []ast.Stmt) bool {
	found := false
	for _, s := range list {
		ast.Inspect(s, func(n ast.Node) bool {
			switch n.(type) {
			case *ast.FuncLit:
				return false
			case *ast.LabeledStmt:
				found = true
			}

			return !found
		})
	}

	return found
}

// retargetContinue rewrites unlabelled `continue` statements that bind to the loop enclosing the
// select (i.e. not nested in an inner loop or function literal) into `continue <label>`.
// It reports whether any was found.
func retargetContinue(list []ast.Stmt, label func() string) {
	var walk func(n ast.Node)
	walk = func(n ast.Node) {
		ast.Inspect(n, func(m ast.Node) bool {
			switch x := m.(type) {
			case *ast.FuncLit, *ast.ForStmt, *ast.RangeStmt:
				return m == n // do not descend into nested loops / literals (but do enter n itself)
			case *ast.BranchStmt:
				if x.Tok == token.CONTINUE && x.Label == nil {
					x.Label = ast.NewIdent(label())
				}
			}

			return true
		})
	}
	for _, s := range list {
		switch s.(type) {
		case *ast.ForStmt, *ast.RangeStmt:
			continue
		}
		walk(s)
	}
}

// breaksSelect reports whether list contains an unlabelled break that binds to the select itself.
func breaksSelect(list []ast.Stmt) bool {
	found := false
	var walk func(n ast.Node)
	walk = func(n ast.Node) {
		ast.Inspect(n, func(m ast.Node) bool {
			if found {
				return false
			}
			switch x := m.(type) {
			case *ast.FuncLit, *ast.ForStmt, *ast.RangeStmt, *ast.SwitchStmt, *ast.TypeSwitchStmt, *ast.SelectStmt:
				return m == n
			case *ast.BranchStmt:
				if x.Tok == token.BREAK && x.Label == nil {
					found = true
				}
			}

			return true
		})
	}
	for _, s := range list {
		switch s.(type) {
		case *ast.ForStmt, *ast.RangeStmt, *ast.SwitchStmt, *ast.TypeSwitchStmt, *ast.SelectStmt:
			continue
		}
		walk(s)
	}

	return found
}

func isTerminating(list []ast.Stmt) bool {
	if len(list) == 0 {
		return false
	}
	switch x := list[len(list)-1].(type) {
	case *ast.ReturnStmt:
		return true
	case *ast.BranchStmt:
		return x.Tok == token.GOTO || x.Tok == token.CONTINUE // continue never falls out of the select
	case *ast.ExprStmt:
		if c, ok := x.X.(*ast.CallExpr); ok {
			if id, ok := c.Fun.(*ast.Ident); ok && id.Name == "panic" {
				return true
			}
		}
	case *ast.BlockStmt:
		return isTerminating(x.List)
	case *ast.IfStmt:
		if x.Else == nil {
			return false
		}
		if !isTerminating(x.Body.List) {
			return false
		}
		switch e := x.Else.(type) {
		case *ast.BlockStmt:
			return isTerminating(e.List)
		case *ast.IfStmt:
			return isTerminating([]ast.Stmt{e})
		}
	}

	return false
}

func (fc *fileCtx) rewriteSelect(sel *ast.SelectStmt, loop *loopInfo) []ast.Stmt {
	var comm []*ast.CommClause
	var def *ast.CommClause
	for _, c := range sel.Body.List {
		cc := c.(*ast.CommClause)
		if cc.Comm == nil {
			def = cc
		} else {
			comm = append(comm, cc)
		}
	}
	// rewrite bodies first (nested constructs)
	for _, c := range sel.Body.List {
		cc := c.(*ast.CommClause)
		cc.Body = fc.rewriteList(cc.Body, loop)
		if cc.Comm != nil {
			fc.rewriteFuncLitsIn(cc.Comm)
		}
	}
	site := fc.site(sel, "select")
	if len(comm) == 0 {
		return []ast.Stmt{sel}
	}
	if len(comm) == 1 {
		st.selectsSingle++
		if def == nil {
			comm[0].Body = append([]ast.Stmt{fc.hookCall("Resume", site)}, comm[0].Body...)
		}

		return []ast.Stmt{fc.hookCall("Yield", site), sel}
	}

	// >= 2 communication clauses: full rewrite.
	for _, cc := range comm {
		if hasLabelDecl(cc.Body) {
			st.warnings = append(st.warnings, fmt.Sprintf("%s: select with a label inside a clause body left runtime-chosen", site.Value))
			for _, c := range comm {
				c.Body = append([]ast.Stmt{fc.hookCall("Resume", site)}, c.Body...)
			}

			return []ast.Stmt{fc.hookCall("Yield", site), sel}
		}
	}
	st.selects++
	fc.needHook = true

	terminating := true
	for _, c := range sel.Body.List {
		cc := c.(*ast.CommClause)
		if !isTerminating(cc.Body) || breaksSelect(cc.Body) {
			terminating = false
		}
	}

	// continue retargeting
	needLabel := func() string {
		if loop == nil {
			return "_simNoLoop" // would not compile; a continue outside a loop cannot exist
		}
		if loop.label == "" {
			fc.labelN++
			loop.setName(fmt.Sprintf("_simLoop%d", fc.labelN))
		}

		return loop.label
	}
	for _, c := range sel.Body.List {
		retargetContinue(c.(*ast.CommClause).Body, needLabel)
	}

	fired := ast.NewIdent("_simFired")
	idx := ast.NewIdent("_simI")
	setFired := &ast.AssignStmt{Lhs: []ast.Expr{fired}, Tok: token.ASSIGN, Rhs: []ast.Expr{ast.NewIdent("true")}}

	var cases []ast.Stmt
	for i, cc := range comm {
		body := append([]ast.Stmt{setFired, fc.hookCall("Resume", site)}, cc.Body...)
		one := &ast.SelectStmt{Body: &ast.BlockStmt{List: []ast.Stmt{
			&ast.CommClause{Comm: cc.Comm, Body: body},
			&ast.CommClause{Comm: nil, Body: nil},
		}}}
		cases = append(cases, &ast.CaseClause{
			List: []ast.Expr{&ast.BasicLit{Kind: token.INT, Value: strconv.Itoa(i)}},
			Body: []ast.Stmt{one},
		})
	}
	poll := &ast.RangeStmt{
		Key: ast.NewIdent("_"), Value: idx, Tok: token.DEFINE,
		X: &ast.CallExpr{
			Fun:  &ast.SelectorExpr{X: ast.NewIdent("simhook"), Sel: ast.NewIdent("Order")},
			Args: []ast.Expr{&ast.BasicLit{Kind: token.INT, Value: strconv.Itoa(len(comm))}, site},
		},
		Body: &ast.BlockStmt{List: []ast.Stmt{
			&ast.SwitchStmt{Tag: idx, Body: &ast.BlockStmt{List: cases}},
			&ast.IfStmt{Cond: fired, Body: &ast.BlockStmt{List: []ast.Stmt{&ast.BranchStmt{Tok: token.BREAK}}}},
		}},
	}

	// fallback
	var fallback ast.Stmt
	if def != nil {
		fallback = &ast.BlockStmt{List: def.Body}
	} else {
		var clauses []ast.Stmt
		for _, cc := range comm {
			clauses = append(clauses, &ast.CommClause{
				Comm: cc.Comm,
				Body: append([]ast.Stmt{fc.hookCall("Resume", site)}, cc.Body...),
			})
		}
		fallback = &ast.SelectStmt{Body: &ast.BlockStmt{List: clauses}}
	}
	blk := &ast.BlockStmt{List: []ast.Stmt{
		fc.hookCall("Yield", site),
		&ast.AssignStmt{Lhs: []ast.Expr{fired}, Tok: token.DEFINE, Rhs: []ast.Expr{ast.NewIdent("false")}},
		poll,
		&ast.IfStmt{Cond: &ast.UnaryExpr{Op: token.NOT, X: fired}, Body: &ast.BlockStmt{List: []ast.Stmt{fallback}}},
	}}
	out := []ast.Stmt{blk}
	if terminating {
		out = append(out, &ast.ExprStmt{X: &ast.CallExpr{Fun: ast.NewIdent("panic"), Args: []ast.Expr{&ast.BasicLit{Kind: token.STRING, Value: `"simhook: unreachable"`}}}})
	}

	return out
}

func init() {
	// deterministic output order of warnings
	sort.Strings(st.warnings)
}
