package hsms

// Demonstration (plain Go test against the UNINSTRUMENTED library, package-internal like the
// repository's own supervisor tests) of the defect the simulator found through the C05 checks
// (replays/C05/SPURIOUS_DISCONNECT-205000492.json end to end, replays/C05/T7_STALE_DISCONNECT-*.json
// in the actor engine): "a session that has reached Selected is never disconnected by a T7 timeout
// armed before it was selected".
//
// The T7 armed when TCP came up expires and its evT7Timeout is queued; before the supervisor
// goroutine runs, the receive goroutine commits a Select (the peer's Select.req arrived in the same
// instant) and, a little later, a Deselect. The register is NotSelected again when the supervisor
// finally processes the stale expiry, so the CAS(NotSelected -> NotConnected) that guards the T7 store
// succeeds (an ABA on the state register) and the session — selected in the meantime, and now in a
// NEW not-selected dwell with its own, fresh T7 — is torn down.
//
// Copy into /repo/hsms/ and run: go test ./hsms -run TestFinding_C05_StaleT7AfterSelectAndDeselect
// Fails before the fix commit, passes after it.

import "testing"

func TestFinding_C05_StaleT7AfterSelectAndDeselect(t *testing.T) {
	s := newTestSupervisor(t, 8)
	if !s.CommitConnected() {
		t.Fatal("setup: TCP-up commit must succeed")
	}
	s.inject(evT7Timeout) // the T7 armed at TCP-up expires; the supervisor has not run yet
	if !s.CommitSelected() || !s.CommitSelectLost() {
		t.Fatal("setup: select and deselect commits must succeed")
	}
	// the supervisor goroutine now drains its queue in order (run() does exactly this)
	for len(s.events) > 0 {
		s.step(<-s.events)
	}
	if s.State() != NotSelectedState {
		t.Fatalf("State() = %v after the supervisor drained its queue: the T7 armed before the session was selected disconnected it; want %v (the new dwell has its own T7)", s.State(), NotSelectedState)
	}
}
