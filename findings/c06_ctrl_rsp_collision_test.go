package hsmsss_test

// Demonstration (plain Go test against the UNINSTRUMENTED library, real TCP on loopback) of the
// C06 defect found by the simulator: a peer control response (here Linktest.rsp) whose system
// bytes equal an open DATA transaction made SendDataMessage return (nil, nil).
// Copy into /repo/hsmsss/ and run: go test ./hsmsss -run TestFinding_C06_ControlRspCollision
import (
	"context"
	"encoding/binary"
	"io"
	"net"
	"testing"
	"time"

	"github.com/arloliu/go-secs/v2/hsms"
	"github.com/arloliu/go-secs/v2/hsmsss"
	"github.com/arloliu/go-secs/v2/secs2"
)

func TestFinding_C06_ControlRspCollision(t *testing.T) {
	ln, err := net.Listen("tcp", "127.0.0.1:0")
	if err != nil {
		t.Fatal(err)
	}
	defer ln.Close()
	port := ln.Addr().(*net.TCPAddr).Port
	go func() {
		c, err := ln.Accept()
		if err != nil {
			return
		}
		defer c.Close()
		for {
			var lb [4]byte
			if _, err := io.ReadFull(c, lb[:]); err != nil {
				return
			}
			f := make([]byte, binary.BigEndian.Uint32(lb[:]))
			if _, err := io.ReadFull(c, f); err != nil {
				return
			}
			out := make([]byte, 14)
			binary.BigEndian.PutUint32(out, 10)
			copy(out[4:], f[:10])
			switch f[5] {
			case 1: // Select.req -> Select.rsp status 0
				out[4+5] = 2
				c.Write(out)
			case 0: // data primary -> answer with a Linktest.rsp carrying ITS system bytes
				out[4+0], out[4+1], out[4+2], out[4+3], out[4+5] = 0xFF, 0xFF, 0, 0, 6
				c.Write(out)
			}
		}
	}()
	cfg, err := hsmsss.NewConfig("127.0.0.1", port, hsmsss.WithActive(), hsmsss.WithHostRole(),
		hsmsss.WithConnectionOption(hsms.WithT3(time.Second)))
	if err != nil {
		t.Fatal(err)
	}
	conn, err := hsmsss.New(cfg)
	if err != nil {
		t.Fatal(err)
	}
	ctx, cancel := context.WithTimeout(context.Background(), 5*time.Second)
	defer cancel()
	if err := conn.Open(ctx, hsms.OpenWaitSelected); err != nil {
		t.Fatal(err)
	}
	defer conn.Close()
	reply, err := conn.SendDataMessage(context.Background(), 1, 1, true, secs2.A("x"))
	if reply == nil && err == nil {
		t.Fatalf("SendDataMessage returned (nil, nil): a control response with colliding system bytes completed a data transaction")
	}
	t.Logf("reply=%v err=%v", reply, err)
}
