package hsms

// Demonstration (plain Go test against the UNINSTRUMENTED library, package-internal like the
// repository's own supervisor tests) of the defect the simulator found through the C08 harness
// (replays/C08/STATE-*.json, WRONG_FRAME-*.json) and that property C05 names directly ("a change
// is never undone or replayed by the library's later internal processing of an earlier event"):
//
// A peer pipelines Select.req and Deselect.req in one TCP segment. The receive goroutine commits
// NotSelected->Selected (CommitSelected, enqueues evSelectAccepted) and then Selected->NotSelected
// (CommitSelectLost, enqueues evSelectLost), answering Select.rsp(0) and Deselect.rsp(0), before
// the supervisor goroutine is scheduled. The supervisor then processes the queued evSelectAccepted
// with the state already back at NotSelected: NotSelected+evSelectAccepted is a legal table entry,
// so step() STORES Selected - resurrecting a session the peer has just deselected - and then
// abandons the evSelectLost as "superseded" (it observes Selected). State() reports Selected for
// good: data is accepted instead of Reject(4), a second Deselect.req is answered status 0, a new
// Select.req is answered status 1, and a Separate.req drops the link.
//
// Copy into /repo/hsms/ and run: go test ./hsms -run TestFinding_C05_StaleSelectAcceptedResurrectsSelected
// Fails before the fix commit, passes after it.

import "testing"

func TestFinding_C05_StaleSelectAcceptedResurrectsSelected(t *testing.T) {
	s := newTestSupervisor(t, 8)
	if !s.CommitConnected() || !s.CommitSelected() || !s.CommitSelectLost() {
		t.Fatal("setup: commits must succeed")
	}
	if s.State() != NotSelectedState {
		t.Fatalf("after the synchronous Deselect commit State() = %v", s.State())
	}
	// the supervisor goroutine now drains its queue in order (run() does exactly this)
	for len(s.events) > 0 {
		s.step(<-s.events)
	}
	if s.State() != NotSelectedState {
		t.Fatalf("State() = %v after the supervisor drained its queue; the peer deselected, want %v", s.State(), NotSelectedState)
	}
}
