// place at: hsmsss/zz_verif_c10_close_behind_open_test.go
//
// Demonstration (public API, real loopback sockets, uninstrumented library) of the C10 finding
// "Close is serialized behind a concurrent Open": Open holds the lifecycle lock for its whole
// duration, so a Close issued from another goroutine waits
//   (A) for the entire OpenWaitSelected wait, i.e. up to the OTHER caller's context, and
//   (B) for Open's synchronous dial, i.e. up to the connect timeout (the OS connect timeout when
//       none is configured),
// instead of returning within the configured close timeout.
// Found by /verif's C10 simulation (class CLOSE_SLOW).
package hsmsss_test

import (
	"context"
	"net"
	"testing"
	"time"

	"github.com/arloliu/go-secs/v2/hsms"
	"github.com/arloliu/go-secs/v2/hsmsss"
)

func TestVerifC10_A_CloseDuringOpenWaitSelected(t *testing.T) {
	ln, err := net.Listen("tcp", "127.0.0.1:0")
	if err != nil {
		t.Fatal(err)
	}
	port := ln.Addr().(*net.TCPAddr).Port
	_ = ln.Close()
	cfg, err := hsmsss.NewConfig("127.0.0.1", port, hsmsss.WithPassive(), hsmsss.WithHostRole(),
		hsmsss.WithConnectionOption(hsms.WithCloseTimeout(200*time.Millisecond)))
	if err != nil {
		t.Fatal(err)
	}
	c, err := hsmsss.New(cfg)
	if err != nil {
		t.Fatal(err)
	}
	openDone := make(chan error, 1)
	go func() {
		ctx, cancel := context.WithTimeout(context.Background(), 3*time.Second)
		defer cancel()
		openDone <- c.Open(ctx, hsms.OpenWaitSelected) // no peer ever connects
	}()
	time.Sleep(150 * time.Millisecond)
	t0 := time.Now()
	_ = c.Close()
	took := time.Since(t0)
	<-openDone
	_ = c.Close()
	if took > time.Second {
		t.Fatalf("Close took %v while another goroutine was inside Open(OpenWaitSelected); close timeout is 200ms", took)
	}
}

func TestVerifC10_B_CloseDuringOpenDial(t *testing.T) {
	blackhole := func(ctx context.Context, network, address string) (net.Conn, error) {
		<-ctx.Done() // a SYN that is never answered

		return nil, ctx.Err()
	}
	cfg, err := hsmsss.NewConfig("127.0.0.1", 5999, hsmsss.WithActive(), hsmsss.WithHostRole(), hsmsss.WithDialer(blackhole),
		hsmsss.WithConnectTimeout(3*time.Second), hsmsss.WithConnectionOption(hsms.WithCloseTimeout(200*time.Millisecond)))
	if err != nil {
		t.Fatal(err)
	}
	c, err := hsmsss.New(cfg)
	if err != nil {
		t.Fatal(err)
	}
	openDone := make(chan error, 1)
	go func() { openDone <- c.Open(context.Background(), hsms.OpenBackground) }()
	time.Sleep(150 * time.Millisecond)
	t0 := time.Now()
	_ = c.Close()
	took := time.Since(t0)
	<-openDone
	_ = c.Close()
	if took > time.Second {
		t.Fatalf("Close took %v while another goroutine was inside Open's synchronous dial (connect timeout 3s); close timeout is 200ms", took)
	}
}
