// place at: hsms/zz_verif_c05_commit_after_close_test.go
//
// Demonstration (package-internal, uninstrumented library) of the C05 finding
// "synchronous TCP-up commit after the close latch": once the supervisor has processed evClose it
// is latched closed and ignores every later EVENT, but the synchronous CommitConnected CAS
// (NotConnected -> NotSelected), called by a transport goroutine whose dial/accept completed while
// Close was in progress, still moved the register. Its evTCPUp is then ignored by the latch, so
// State() reports NotSelected for good although Close has returned.
// Found by /verif's C05 end-to-end simulation (replays/C05/AFTER_CLOSE-1217003806.json): an
// application Close at the very instant a reconnect dial completes.
package hsms

import (
	"sync/atomic"
	"testing"
)

func TestVerifC05_CommitAfterCloseLatchDoesNotLeaveNotConnected(t *testing.T) {
	var handlers atomic.Pointer[[]StateChangeHandler]
	s := newSupervisor(func(prev, next ConnState) {}, &handlers)

	// Close from NotConnected (e.g. during a reconnect attempt): no transition, the latch is set.
	s.step(evClose)
	if got := s.State(); got != NotConnectedState {
		t.Fatalf("after evClose: State() = %v, want NotConnected", got)
	}

	// The reconnect attempt's dial completes now: the transport calls TCPUp -> CommitConnected.
	committed := s.CommitConnected()
	// drain the queued evTCPUp exactly as run() would
	select {
	case ev := <-s.events:
		s.step(ev)
	default:
	}
	if got := s.State(); got != NotConnectedState {
		t.Fatalf("CommitConnected after the close was processed: committed=%v, State() = %v, want NotConnected (and to stay so until the next Open)", committed, got)
	}

	// the other two commits must not move a closed register either
	s.CommitSelected()
	s.CommitSelectLost()
	for len(s.events) > 0 {
		s.step(<-s.events)
	}
	if got := s.State(); got != NotConnectedState {
		t.Fatalf("commits after the close was processed moved State() to %v", got)
	}
}
